#!/bin/sh
# Offline set-up: overlay venv (= /venv's packages + z3-solver, cvc5 from the local wheelhouse).
set -e
cd "$(dirname "$0")"
V=.venv
if [ ! -x "$V/bin/python" ] || ! "$V/bin/python" -c "import z3, jax" 2>/dev/null; then
  rm -rf "$V"
  /venv/bin/python -m venv "$V"
  SP=$("$V/bin/python" -c "import site; print(site.getsitepackages()[0])")
  printf '%s\n' "import site; site.addsitedir('/venv/lib/python3.12/site-packages')" > "$SP/_overlay.pth"
  PIP_NO_INDEX=1 "$V/bin/pip" install -q --no-index --find-links /opt/veriftools/wheels z3-solver cvc5 >/dev/null 2>&1 || \
  PIP_NO_INDEX=1 "$V/bin/pip" install -q --no-index --find-links /opt/veriftools/wheels z3-solver
fi
"$V/bin/python" -c "import z3, jax; print('overlay ok: z3', z3.get_version_string(), 'jax', jax.__version__)"

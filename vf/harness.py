"""Tracing real jinns callables into jaxprs, running them symbolically, deciding goals, replaying
counterexamples on the real code, and recording evidence."""
from __future__ import annotations
import json, os, time, traceback, hashlib
from fractions import Fraction
import numpy as np
import jax, jax.numpy as jnp
import equinox as eqx
from . import terms as tm
from .terms import T, conc_array, sym_array
from .interp import Interp, Ctx, NotEncodable, NeedDecision, explore, collect_prims
from .decide import Decider, Hints, cross_check
from . import stubs


class RealCodeRaised(Exception):
    pass


class HarnessError(Exception):
    """the machinery (not the code under test) is wrong: translator validation failed, a twin was not
    refuted, a model did not reproduce."""


def _is_arr(x):
    return isinstance(x, (jax.Array, np.ndarray)) and not (isinstance(x, np.ndarray) and x.dtype == object)


def _is_objarr(x):
    return isinstance(x, np.ndarray) and x.dtype == object


def _pathname(prefix, kp):
    s = jax.tree_util.keystr(kp)
    for a, b in (("[", "_"), ("]", ""), (".", "_"), ("'", ""), ('"', ""), (" ", "")):
        s = s.replace(a, b)
    return prefix + s


class Traced:
    """f(*args) traced from the real source.  Array leaves of args are jaxpr inputs; every other leaf
    (python scalars, strings, static fields) is closed over.  `conc` selects leaves kept concrete."""

    def __init__(self, f, args, prefix="a", conc=None, x64=True, use_stubs=False, sym_consts=False,
                 trace_only_is_violation=False, missing="hint", fallback_key=None, lazy=False):
        self.missing = missing          # value of symbols absent from a model: "hint" or "example"
        self.f = f; self.args = args; self.prefix = prefix; self.use_stubs = use_stubs
        self.dyn, self.static = eqx.partition(args, _is_arr)
        flat, self.in_tree = jax.tree_util.tree_flatten(self.dyn)
        kps = [kp for kp, _ in jax.tree_util.tree_flatten_with_path(self.dyn)[0]]
        self.names = [_pathname(prefix, kp) for kp in kps]
        self.in_leaves = [jnp.asarray(l) for l in flat]
        self.is_conc = [bool(conc and conc(n, l)) for n, l in zip(self.names, self.in_leaves)]
        self._out_static = None
        self.closed = None; self.out_tree = None; self.trace_s = 0.0
        # lazy (replays): the jaxpr is made on demand, so that the first thing the process does with the real code can be the
        # concrete run of the recorded input (failures that depend on it being the first call in the process)
        if not lazy: self._ensure()
        self.sym_ins = [conc_array(np.asarray(l)) if c else sym_array(n, l.shape, l.dtype)
                        for n, l, c in zip(self.names, self.in_leaves, self.is_conc)]
        self.A = self._rebuild(self.sym_ins)
        self.sym_consts = sym_consts
        self.const_syms = []

    def _ensure(self):
        if self.closed is not None: return
        t0 = time.time()
        if self.use_stubs: stubs.install()
        try:
            self.closed = jax.make_jaxpr(self._flat_f)(*self.in_leaves)
        finally:
            if self.use_stubs: stubs.uninstall()
        self.trace_s = time.time() - t0

    # the traced function on flat leaves
    def _flat_f(self, *leaves):
        dyn = jax.tree_util.tree_unflatten(self.in_tree, list(leaves))
        args = eqx.combine(dyn, self.static)
        out = self.f(*args)
        od, os_ = eqx.partition(out, _is_arr)
        self._out_static = os_
        ol, self.out_tree = jax.tree_util.tree_flatten(od)
        self.out_paths = [jax.tree_util.keystr(kp) for kp, _ in jax.tree_util.tree_flatten_with_path(od)[0]]
        return ol

    def _rebuild(self, leaves):
        dyn = jax.tree_util.tree_unflatten(self.in_tree, list(leaves))
        return eqx.combine(dyn, self.static, is_leaf=lambda x: x is None or _is_objarr(x))

    def _rebuild_out(self, leaves):
        od = jax.tree_util.tree_unflatten(self.out_tree, list(leaves))
        return eqx.combine(od, self._out_static, is_leaf=lambda x: x is None or _is_objarr(x))

    def prims(self):
        self._ensure()
        return collect_prims(self.closed.jaxpr)

    def run(self, interp=None, **kw):
        """symbolic execution -> output pytree whose array leaves are object arrays of terms."""
        self._ensure()
        it = interp or Interp(**kw)
        if self.sym_consts and it.sym_consts is None:
            def sc(k, c):
                c = np.asarray(c)
                if c.dtype.kind != "f" or c.size == 0: return None
                a = sym_array(f"{self.prefix}$const{k}", c.shape, c.dtype)
                self.const_syms.append((k, a, c))
                return a
            it.sym_consts = sc
        outs = it.eval_closed(self.closed, *self.sym_ins)
        self.last_interp = it
        return self._rebuild_out(outs)

    # ---- concrete side
    def env_to_leaves(self, env, hints, rnd=0):
        """concrete input leaves from a model (missing symbols: hint / example value)."""
        leaves = []
        for n, l, c in zip(self.names, self.in_leaves, self.is_conc):
            if c:
                leaves.append(l); continue
            a = np.array(l)
            kind = a.dtype.kind
            for idx in np.ndindex(*a.shape):
                nm = n + "".join(f"_{i}" for i in idx)
                if nm in env: v = env[nm]
                elif kind == "f" and self.missing == "hint": v = hints.value(nm, rnd)
                else: v = a[idx]
                a[idx] = float(v) if kind == "f" else v
            leaves.append(jnp.asarray(a, dtype=l.dtype))
        return leaves

    def call_real(self, leaves, stubbed=False, jit=False):
        """the real callable on concrete leaves -> output pytree of numpy arrays."""
        dyn = jax.tree_util.tree_unflatten(self.in_tree, list(leaves))
        args = eqx.combine(dyn, self.static)
        if stubbed: stubs.install()
        try:
            out = (eqx.filter_jit(self.f) if jit else self.f)(*args)
        finally:
            if stubbed: stubs.uninstall()
        return out

    def concretize_out(self, out):
        """concrete outputs in the structure recorded at trace time (a leaf that was an array under tracing may be a python
        number when the same code runs with jit disabled)"""
        if self.out_tree is None:          # not traced (lazy replay): the structure of the concrete output itself
            od, os_ = eqx.partition(out, _is_arr)
            ol, self.out_tree = jax.tree_util.tree_flatten(od); self._out_static = os_
            self.out_paths = [jax.tree_util.keystr(kp) for kp, _ in jax.tree_util.tree_flatten_with_path(od)[0]]
        n = self.out_tree.num_leaves
        # leaves are matched by key path (never by comparing tree structures: a static field that holds an array -- e.g.
        # DataGeneratorParameter.param_ranges -- holds a dead tracer in the structure recorded at trace time)
        by_path = {jax.tree_util.keystr(kp): l for kp, l in jax.tree_util.tree_flatten_with_path(out)[0]}
        paths = getattr(self, "out_paths", None)
        ol = [np.asarray(by_path[p]) for p in paths] if (paths is not None and all(p in by_path for p in paths)) else []
        if len(ol) != n:       # fall back to the array leaves of the concrete output
            od, _ = eqx.partition(out, _is_arr)
            ol = [np.asarray(o) for o in jax.tree_util.tree_flatten(od)[0]]
        return self._rebuild_out([conc_array(np.asarray(o)) for o in ol]), [np.asarray(o) for o in ol]


def flat_terms(tree):
    out = []
    for l in jax.tree_util.tree_leaves(tree, is_leaf=_is_objarr):
        if _is_objarr(l): out.extend(l.flat)
    return out


def validate_translation(tr: Traced, O, hints: Hints, npoints=2, rtol=1e-7, stub_env=None):
    """translator validation: the symbolic outputs, evaluated at seeded rational points, must agree
    with the same python callable run through real JAX.  Programs with random stubs are validated with the
    stub outputs read back from the real PRNG only when no stub symbol occurs in the outputs."""
    terms = [t for t in flat_terms(O) if isinstance(t, T)]
    fv = {x.args[0]: x for x in tm.subterms(terms) if x.op == "var"}
    innames = set()
    for n, l in zip(tr.names, tr.in_leaves):
        for idx in np.ndindex(*l.shape): innames.add(n + "".join(f"_{i}" for i in idx))
    if any(n not in innames for n in fv):
        return dict(skipped="outputs depend on stub symbols", points=0)
    worst = 0.0
    for rnd in range(npoints):
        env = {}
        for n, v in fv.items():
            if v.sort == "Real": env[n] = float(hints.value(n, 100 + rnd))
        leaves = tr.env_to_leaves({k: Fraction(v) for k, v in env.items()}, hints, 100 + rnd)
        # non-real inputs keep their example values
        for n, l in zip(tr.names, leaves):
            a = np.asarray(l)
            if a.dtype.kind != "f":
                for idx in np.ndindex(*a.shape):
                    env[n + "".join(f"_{i}" for i in idx)] = (bool(a[idx]) if a.dtype.kind == "b" else int(a[idx]))
            else:
                for idx in np.ndindex(*a.shape):
                    env.setdefault(n + "".join(f"_{i}" for i in idx), float(a[idx]))
        try:
            vals = tm.evaluate(terms, env)
        except (ZeroDivisionError, ValueError, OverflowError):
            continue
        try:
            real = tr.call_real(leaves, stubbed=tr.use_stubs)
        except (jax.errors.UnexpectedTracerError, jax.errors.TracerArrayConversionError, jax.errors.ConcretizationTypeError) as ex:
            # a concrete run cannot meet a tracer unless the code under test kept one from the earlier (traced) call
            raise RealCodeRaised("the code keeps a value of an earlier traced call in module-level state (second call fails): "
                                 + f"{type(ex).__name__}: {str(ex).splitlines()[0][:160]}")
        _, rl = tr.concretize_out(real)
        rflat = np.concatenate([np.asarray(r, dtype=np.float64).ravel() for r in rl]) if rl else np.zeros(0)
        sflat = np.array([float(v) for v in vals], dtype=np.float64)
        if rflat.shape != sflat.shape:
            raise HarnessError(f"translator validation: shape {rflat.shape} vs {sflat.shape}")
        err = np.abs(rflat - sflat) / np.maximum(1.0, np.maximum(np.abs(rflat), np.abs(sflat)))
        bad = ~(err <= rtol)
        if bad.any():
            k = int(np.argmax(bad))
            raise HarnessError(f"translator validation failed: output {k}: real {rflat[k]!r} vs symbolic {sflat[k]!r}")
        worst = max(worst, float(err.max()) if err.size else 0.0)
    return dict(points=npoints, outputs=len(terms), max_rel_err=worst)


class Recorder:
    """collects query records, violations and statistics for one configuration."""

    def __init__(self, prop, cfg, tier="quick", seed=0, replay=None):
        self.prop, self.cfg, self.tier, self.seed = prop, cfg, tier, seed
        self.records = []; self.violations = []; self.errors = []; self.inconclusive = []
        self.functions = set(); self.assumptions = set(); self.stubs_used = set()
        self.validation = []; self.twins = []; self.solver_time = 0.0; self.paths = 0; self.feas_queries = 0
        self.replay = replay            # dict(goal=name, model=env) in replay mode
        self.replay_result = None
        self.smt2 = []
        self.t_short = 10
        self.t_long = 120 if tier == "quick" else 600
        self.prims = {}

    def note(self, functions=(), assumptions=(), stubs_=()):
        self.functions |= set(functions); self.assumptions |= set(assumptions); self.stubs_used |= set(stubs_)

    def decider(self, assume=(), hint_spec=(), rounds=None):
        d = Decider(assume, seed=self.seed, hint_spec=hint_spec, t_short=self.t_short, t_long=self.t_long, **({"rounds": rounds} if rounds else {}))
        d.keep_smt2 = (self.tier == "thorough")
        return d

    # ------------------------------------------------------------------
    def trace(self, prog, f, args, key=None, concrete_goals=None, **kw):
        """Traced(f, args) -- if the REAL code raises while being traced, it is run concretely on the
        example arguments: raising there too is a violation (the code rejects/crashes on an input the
        property covers); tracing-only failures are reported by the caller's policy (trace_only)."""
        if self.replay is not None and self.replay.get("goal") == "real code raises" :
            if self.replay.get("prog") != prog: return None
            if "module-level state" in (self.replay.get("note") or ""):
                # the recorded failure needs the history: one traced call, then a concrete one
                try: Traced(f, args, **kw)
                except Exception: pass
            try:
                if kw.get("use_stubs"): stubs.install()
                try: out = f(*args)
                finally:
                    if kw.get("use_stubs"): stubs.uninstall()
                self.replay_result = dict(reproduced=False, note="no exception")
                if concrete_goals is not None:
                    is_a = lambda x: x is None or _is_arr(x)
                    Ac = jax.tree_util.tree_map(lambda x: conc_array(np.asarray(x)) if _is_arr(x) else x, args, is_leaf=is_a)
                    Oc = jax.tree_util.tree_map(lambda x: conc_array(np.asarray(x)) if _is_arr(x) else x, out, is_leaf=is_a)
                    old = dict(tm.CONCRETE); tm.CONCRETE["on"] = True
                    try: bad = [g for g in concrete_goals(Ac, Oc) if g[1].is_const and not g[1].val]
                    finally: tm.CONCRETE.update(old)
                    if bad: self.replay_result = dict(reproduced=True, note="goal fails on the concrete example run: " + bad[0][0])
            except Exception as ex:
                self.replay_result = dict(reproduced=True, note=f"{type(ex).__name__}: {ex}")
            return None
        try:
            return Traced(f, args, lazy=(self.replay is not None), **kw)
        except NotEncodable:
            raise
        except Exception as ex:
            msg = f"{type(ex).__name__}: {str(ex).splitlines()[0][:200] if str(ex) else ''}"
            try:
                if kw.get("use_stubs"): stubs.install()
                try: f(*args)
                finally:
                    if kw.get("use_stubs"): stubs.uninstall()
                concrete_ok = True
            except Exception as ex2:
                concrete_ok = False
                msg = f"{type(ex2).__name__}: {str(ex2).splitlines()[0][:200] if str(ex2) else ''}"
            k = key or f"{prog}/real code raises"
            if not concrete_ok:
                self._record_violation(k, prog, "real code raises", {}, note=msg)
            elif kw.get("trace_only_is_violation"):
                self._record_violation(k, prog, "real code raises", {}, note="runs eagerly but cannot be traced: " + msg)
            elif concrete_goals is not None:
                # the real code needs concrete values where the harness passes symbols: it cannot be encoded.  Fallback that is NOT
                # solver-based (recorded as such): the goals are evaluated on one concrete run of the example arguments; a failing goal
                # is a genuine, replayable violation, a passing run proves nothing and the program is reported inconclusive.
                try:
                    if kw.get("use_stubs"): stubs.install()
                    try: out = f(*args)
                    finally:
                        if kw.get("use_stubs"): stubs.uninstall()
                    is_a = lambda x: x is None or _is_arr(x)
                    Ac = jax.tree_util.tree_map(lambda x: conc_array(np.asarray(x)) if _is_arr(x) else x, args, is_leaf=is_a)
                    Oc = jax.tree_util.tree_map(lambda x: conc_array(np.asarray(x)) if _is_arr(x) else x, out, is_leaf=is_a)
                    old = dict(tm.CONCRETE); tm.CONCRETE["on"] = True
                    try: gs = list(concrete_goals(Ac, Oc))
                    finally: tm.CONCRETE.update(old)
                    bad = [g for g in gs if g[1].is_const and not g[1].val]
                    for gname, _ in bad[:3]:
                        self._record_violation((kw.get("fallback_key") or prog) + ":" + gname.split("==")[0].split("[")[0].strip()[:40], prog, "real code raises", {},
                                               note=f"NOT solver-found: the real code cannot be traced ({msg}); the goal '{gname}' fails on the concrete example run")
                    if not bad:
                        self.inconclusive.append(f"{prog}: the real code cannot be traced ({msg}); concrete example run satisfies the goals - no verdict")
                except Exception as ex3:
                    self.inconclusive.append(f"{prog}: the real code cannot be traced ({msg}); concrete fallback failed: {type(ex3).__name__}: {ex3}")
            else:
                self.errors.append(f"{prog}: tracing failed although the concrete run succeeds: {msg}")
            self.records.append(dict(prog=prog, goal="real code runs on the example input", verdict="sat", phase="trace", ms=0.0))
            return None

    def _record_violation(self, key, prog, gname, model, note=""):
        os.makedirs("/verif/replays", exist_ok=True)
        h = hashlib.sha1((self.prop + json.dumps(self.cfg, sort_keys=True) + prog + gname).encode()).hexdigest()[:10]
        path = f"/verif/replays/{self.prop}-{h}.json"
        with open(path, "w") as f:
            json.dump(dict(property=self.prop, cfg=self.cfg, prog=prog, goal=gname, key=key, seed=self.seed, tier=self.tier,
                           model={k: (str(v) if isinstance(v, Fraction) else v) for k, v in model.items()},
                           note=note), f, indent=1)
        self.violations.append(dict(key=key, prog=prog, goal=gname, replay=path, note=note))

    def check(self, prog, tr: Traced, goal_fn, assume=(), twin_fn=None, hint_spec=(), O=None,
              interp_kw=None, validate=True, key_fn=None, concrete_pred=None, extra_assume_fn=None, rounds=None):
        """Decide every goal of goal_fn(A, O) -> [(name, Bool term)] for the traced program.
        twin_fn(A, O) -> [(name, Bool term)] must all be refutable (reachability twins)."""
        cfgs = json.dumps(self.cfg, sort_keys=True)
        hints = Hints(self.seed, hint_spec)
        if self.replay is not None:
            if self.replay.get("prog") != prog: return
            if tr.use_stubs and getattr(tr, "last_interp", None) is None:
                try: tr.run(**(interp_kw or {}))
                except Exception: pass
            self.replay_result = self._replay(prog, tr, goal_fn, self.replay["goal"], self.replay["model"], hints,
                                              concrete_pred)
            return
        try:
            if O is None:
                O = tr.run(**(interp_kw or {}))
            it = tr.last_interp
            for k, v in tr.prims().items(): self.prims[k] = self.prims.get(k, 0) + v
            ctxA = list(it.ctx.assume)
            A = list(assume) + ctxA + (extra_assume_fn(tr.A, O) if extra_assume_fn else [])
            dec = self.decider(A, hint_spec, rounds)
            goals = list(goal_fn(tr.A, O))
            # obligations recorded by the interpreter are goals too
            for k, (oname, ot) in enumerate(it.ctx.oblig):
                goals.append((f"obligation:{oname}#{k}", ot))
            for gname, g in goals:
                r = dec.prove(g, name=f"{prog}/{gname}")
                rec = dict(prog=prog, goal=gname, verdict=r["verdict"], phase=r["phase"], ms=round(r["ms"], 2))
                self.records.append(rec)
                if r["verdict"] == "sat":
                    self._handle_model(prog, tr, goal_fn, gname, r["model"], hints, key_fn, concrete_pred)
                elif r["verdict"] == "unknown":
                    self.inconclusive.append(f"{prog}/{gname}: solver returned unknown")
            if twin_fn is not None:
                for gname, g in twin_fn(tr.A, O):
                    r = dec.refute(g, name=f"{prog}/twin:{gname}")
                    self.twins.append(dict(prog=prog, twin=gname, verdict=r["verdict"], ms=round(r["ms"], 2)))
                    if r["verdict"] in ("unsat", "structural"):
                        raise HarnessError(f"{prog}: reachability twin '{gname}' was proved - the harness cannot see what it claims to check")
                    if r["verdict"] == "unknown":
                        self.inconclusive.append(f"{prog}/twin:{gname}: unknown")
            self.solver_time += dec.solver_time
            self.smt2.extend(dec.smt2)
            if validate:
                # translator validation (after the goals, so that a violation they found is on record: a code under test whose
                # concrete re-run differs from its traced run also fails here)
                try:
                    self.validation.append(dict(prog=prog, **validate_translation(tr, O, hints)))
                except RealCodeRaised as ex:
                    self.records.append(dict(prog=prog, goal="a second (concrete) call after the traced one runs", verdict="sat", phase="trace", ms=0.0))
                    self._record_violation((key_fn(prog, "state-kept-between-calls") if key_fn else prog + ":state-kept-between-calls"), prog, "real code raises", {}, note=str(ex))
            if dec.vacuous:
                raise HarnessError(f"{prog}: assumptions used by a proof are unsatisfiable (vacuous): {dec.vacuous[:3]}")
        except NotEncodable as ex:
            self.inconclusive.append(f"{prog}: not encodable: {ex}")
        except HarnessError as ex:
            self.errors.append(str(ex))

    # ------------------------------------------------------------------
    def _concrete_goals(self, tr, goal_fn, leaves, stubbed=False, concrete_pred=None):
        try:
            real = tr.call_real(leaves, stubbed=stubbed)
        except Exception as ex:
            raise RealCodeRaised(f"{type(ex).__name__}: {str(ex).splitlines()[0][:200] if str(ex) else ''}")
        Oc, _ = tr.concretize_out(real)
        Ac = tr._rebuild([conc_array(np.asarray(l)) for l in leaves])
        old = dict(tm.CONCRETE)
        tm.CONCRETE["on"] = True
        try:
            return dict(goal_fn(Ac, Oc))
        finally:
            tm.CONCRETE.update(old)

    def _scripted_goals(self, tr, goal_fn, leaves, model, hints):
        """second replay attempt for counterexamples that depend on what the PRNG returns: the real code is run with the
        jax.random stubs installed (jit disabled) and the stubs answer -- keyed by the concrete PRNG key they receive -- with
        the model's uniform samples / permutations."""
        ctx = tr.last_interp.ctx
        env = {}
        for n, l in zip(tr.names, leaves):
            a = np.asarray(l)
            for idx in np.ndindex(*a.shape): env[n + "".join(f"_{i}" for i in idx)] = a[idx]
        memo = {}
        def ckey(terms):
            out = []
            for t in terms:
                if t.is_const: out.append(int(t.val)); continue
                if t in memo: out.append(memo[t]); continue
                if t.op == "var" and t.args[0] in env: v = int(env[t.args[0]])
                elif t in ctx.key_parent:
                    par, num, k, j = ctx.key_parent[t]
                    pk = jnp.asarray(np.array(ckey(par), dtype=np.uint32))
                    ch = np.asarray(stubs._orig["split"](pk, num))
                    for (tt, (par2, num2, k2, j2)) in list(ctx.key_parent.items()):
                        if par2 == par and num2 == num: memo[tt] = int(ch[k2, j2])
                    v = memo[t]
                else: raise KeyError(str(t))
                memo[t] = v; out.append(v)
            return out
        us, ps = {}, {}
        for call in ctx.stub_calls:
            try:
                kb = bytes(np.array(ckey(call[1]), dtype=np.uint32).tobytes())
            except KeyError:
                continue
            if call[0] == "uniform":
                arr = call[2]
                vals = np.empty(arr.shape, dtype=np.float64)
                for idx in np.ndindex(*arr.shape):
                    nm = arr[idx].args[0]
                    vals[idx] = float(model[nm]) if nm in model else float(hints.value(nm, 0))
                us[kb] = vals
            elif call[0] == "perm":
                B = call[2]; n = len(B)
                pi = []
                for i in range(n):
                    ks = [k for k in range(n) if model.get(B[i][k].args[0], False)]
                    if len(ks) != 1: pi = None; break
                    pi.append(ks[0])
                if pi is not None and sorted(pi) == list(range(n)): ps[kb] = np.array(pi, dtype=np.int32)
        stubs.SCRIPT["uniform"], stubs.SCRIPT["perm"] = us, ps
        try:
            with jax.disable_jit():
                return self._concrete_goals(tr, goal_fn, leaves, stubbed=True)
        finally:
            stubs.SCRIPT["uniform"], stubs.SCRIPT["perm"] = None, None

    def _replay(self, prog, tr, goal_fn, gname, model, hints, concrete_pred=None):
        r = self._replay_inproc(prog, tr, goal_fn, gname, model, hints, concrete_pred)
        # (programs with PRNG stubs are traced before their replay anyway: nothing to gain there; at most 3 attempts per configuration)
        if (r.get("reproduced") is False and self.replay is None and not os.environ.get("VF_NO_FRESH") and not tr.use_stubs
                and getattr(self, "_fresh_used", 0) < 3):
            self._fresh_used = getattr(self, "_fresh_used", 0) + 1
            # this process has already run the code (at least the trace): a failure that needs the recorded call to be the FIRST
            # one in its process (state kept at module level) is replayed in a fresh interpreter, untraced
            r2 = self._fresh_replay(prog, gname, model)
            if r2 is not None and r2.get("reproduced"):
                return dict(reproduced=True, note="reproduced in a fresh process where the recorded call is the first use of the code "
                                                  "(this process had already run it: the code keeps state between calls); " + (r2.get("note") or ""))
        return r

    def _fresh_replay(self, prog, gname, model):
        import subprocess, sys, tempfile
        os.makedirs("/verif/replays", exist_ok=True)
        fd, path = tempfile.mkstemp(prefix="fresh-", suffix=".json", dir="/verif/replays")
        try:
            with os.fdopen(fd, "w") as f:
                json.dump(dict(property=self.prop, cfg=self.cfg, prog=prog, goal=gname, key="", seed=self.seed, tier=self.tier,
                               model={k: (str(v) if isinstance(v, Fraction) else v) for k, v in model.items()}, note=""), f)
            env = dict(os.environ, VF_NO_FRESH="1")
            p = subprocess.run([sys.executable, "-m", "vf.main", self.prop, "--replay", path], capture_output=True, text=True, timeout=180, env=env, cwd="/verif")
            txt = p.stdout
            k = txt.find("{")
            if k < 0: return None
            dec = json.JSONDecoder()
            obj, _ = dec.raw_decode(txt[k:])
            return obj.get("result")
        except Exception:
            return None
        finally:
            try: os.unlink(path)
            except OSError: pass

    def _replay_inproc(self, prog, tr, goal_fn, gname, model, hints, concrete_pred=None):
        model = {k: (Fraction(v) if isinstance(v, str) else v) for k, v in model.items()}
        leaves = tr.env_to_leaves(model, hints)
        if getattr(tr, "leaf_hook", None) is not None:
            leaves = tr.leaf_hook(model, leaves)
        if gname.startswith("obligation:"):
            return dict(reproduced=None, note="interpreter obligation: no concrete predicate")
        try:
            goals = self._concrete_goals(tr, goal_fn, leaves)
        except RealCodeRaised as ex:     # the real code raising on the model input is itself a reproduction
            return dict(reproduced=True, note=f"real code raised {ex}")
        g = goals.get(gname)
        if g is None:      # the same comparison is named "<label> (structure/shapes)" when the two sides do not even have the same shape
            base = gname[:-len(" (structure/shapes)")] if gname.endswith(" (structure/shapes)") else gname
            g = goals.get(base, goals.get(base + " (structure/shapes)"))
        if g is None: return dict(reproduced=None, note="goal not found in concrete run")
        if g.is_const and not g.val:
            return dict(reproduced=True, note="")
        # not reproduced with the real PRNG: if the program draws random numbers, replay with the model's draws
        if tr.use_stubs and getattr(tr, "last_interp", None) is not None and tr.last_interp.ctx.stub_calls:
            try:
                goals2 = self._scripted_goals(tr, goal_fn, leaves, model, hints)
                g2 = goals2.get(gname)
                if g2 is not None and g2.is_const:
                    return dict(reproduced=(not g2.val), note="replayed with the model's PRNG draws (stubs scripted by key, jit disabled)" if not g2.val else "")
            except RealCodeRaised as ex:
                return dict(reproduced=True, note=f"real code raised {ex} (scripted PRNG draws)")
        if not g.is_const:
            return dict(reproduced=None, note="goal does not fold to a constant on concrete outputs (depends on stub symbols)")
        return dict(reproduced=False, note="")

    def _handle_model(self, prog, tr, goal_fn, gname, model, hints, key_fn, concrete_pred):
        rp = self._replay(prog, tr, goal_fn, gname, model, hints, concrete_pred)
        key = key_fn(prog, gname) if key_fn else f"{prog}/{gname}"
        if rp["reproduced"]:
            self._record_violation(key, prog, gname, model, note=rp["note"])
        elif rp["reproduced"] is False:
            self.errors.append(f"{prog}/{gname}: solver model does not reproduce on the real code (encoding or stub wrong)")
        else:
            self.inconclusive.append(f"{prog}/{gname}: counterexample could not be replayed: {rp['note']}")

    def result(self):
        return dict(cfg=self.cfg, records=self.records, violations=self.violations, errors=self.errors,
                    inconclusive=self.inconclusive, functions=sorted(self.functions),
                    assumptions=sorted(self.assumptions), stubs=sorted(self.stubs_used),
                    validation=self.validation, twins=self.twins, solver_time=self.solver_time,
                    paths=self.paths, feas_queries=self.feas_queries, prims=self.prims,
                    replay_result=self.replay_result, smt2=self.smt2)

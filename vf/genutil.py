"""Helpers for the data-generator properties (C08, C09, C14, C15): position codes of moved elements."""
import numpy as np
from fractions import Fraction
from . import terms as tm
from .terms import T, const


class Codes:
    """maps every element of a symbolic store to integer codes (row, col); `row_of(t)` turns an
    ite-tree whose leaves are store symbols into a finite-domain Int term (leaf that is not a store
    symbol -> -1).  In concrete (replay) mode store elements are distinct constants and the lookup is by
    value."""

    def __init__(self, store):
        store = np.asarray(store, dtype=object)
        self.n = store.shape[0]
        self.rows = {}; self.cols = {}
        flat = store.reshape(self.n, -1)
        self.W = flat.shape[1]
        self.concrete = all(t.is_const or t.op == "nan" for t in flat.flat)
        for k in range(self.n):
            for j in range(self.W):
                t = flat[k, j]
                if t.op == "nan": continue
                key = (round(float(t.val), 9) if self.concrete else t)
                if key in self.rows and self.concrete:
                    # duplicated value in a concrete store: ambiguous -> mark
                    self.rows[key] = self.rows[key] if self.rows[key] == k else -2
                else:
                    self.rows[key] = k; self.cols[key] = j
        self._memo = {}

    def _leaf(self, t, which):
        if self.concrete:
            if not t.is_const: return const(-1, "Int")
            key = round(float(t.val), 9)
            tab = self.rows if which == "row" else self.cols
            return const(tab.get(key, -1), "Int")
        tab = self.rows if which == "row" else self.cols
        return const(tab.get(t, -1), "Int")

    def code(self, t, which="row"):
        key = (t, which)
        if key in self._memo: return self._memo[key]
        if (not self.concrete) and t in self.rows:          # a store element that is itself an ite-tree is an atom
            r = self._leaf(t, which)
        elif isinstance(t, T) and t.op == "ite":
            r = tm.ite(t.args[0], self.code(t.args[1], which), self.code(t.args[2], which))
        else:
            r = self._leaf(t, which)
        self._memo[key] = r
        return r

    def row_of(self, t): return self.code(t, "row")
    def col_of(self, t): return self.code(t, "col")


def exactly_one(bs):
    out = [tm.disj(bs)]
    for i in range(len(bs)):
        for j in range(i + 1, len(bs)):
            out.append(tm.bor(tm.bnot(bs[i]), tm.bnot(bs[j])))
    return tm.conj(out)


def is_permutation(idx_terms, n):
    """idx_terms: n Int terms; each value 0..n-1 taken exactly once."""
    return tm.conj([exactly_one([tm.eq(t, const(k, "Int")) for t in idx_terms]) for k in range(n)])


def int_in(t, values):
    return tm.disj([tm.eq(t, const(v, "Int")) for v in values])

"""NaN domain for C18: a float is a pair FN(val: Real term, nan: Bool term).  Arithmetic ORs the flags, every ordered
comparison / equality involving a NaN is false, x != x is the flag.  NaNs enter only through designated fault inputs;
NaN *generation* (inf - inf, 0/0) is outside the model.  install() wraps the constructors of vf.terms."""
from . import terms as tm
from .terms import T, const


class FN:
    __slots__ = ("val", "nan")
    sort = "Real"
    is_const = False
    op = "fn"
    id = 0
    args = ()

    def __init__(self, val, nan):
        self.val = val; self.nan = nan


def V(x):
    if isinstance(x, FN): return x.val
    if isinstance(x, T) and x.op == "nan": return const(0, "Real")       # concrete (replay) mode: an observed NaN
    return x


def N(x):
    if isinstance(x, FN): return x.nan
    if isinstance(x, T) and x.op == "nan": return tm.TRUE
    return tm.FALSE
def anyfn(*xs): return any(isinstance(x, FN) for x in xs)


_o = {}


def _or(*fl):
    r = tm.FALSE
    for f in fl: r = tm.bor(r, f)
    return r


def mk(x, n):
    if isinstance(n, T) and n.is_const and not n.val: return x
    return FN(x, n)


def add(a, b): return mk(_o["add"](V(a), V(b)), _or(N(a), N(b))) if anyfn(a, b) else _o["add"](a, b)
def mul(a, b): return mk(_o["mul"](V(a), V(b)), _or(N(a), N(b))) if anyfn(a, b) else _o["mul"](a, b)     # NaN * 0 = NaN
def neg(a): return mk(_o["neg"](V(a)), N(a)) if anyfn(a) else _o["neg"](a)
def div(a, b): return mk(_o["div"](V(a), V(b)), _or(N(a), N(b))) if anyfn(a, b) else _o["div"](a, b)
def ipow(a, n): return mk(_o["ipow"](V(a), n), N(a)) if anyfn(a) else _o["ipow"](a, n)
def uf(name, a, sort="Real"): return mk(_o["uf"](name, V(a), sort), N(a)) if anyfn(a) else _o["uf"](name, a, sort)
def toreal(a): return a if isinstance(a, FN) else _o["toreal"](a)


def ite(c, a, b):
    if anyfn(a, b): return mk(_o["ite"](c, V(a), V(b)), _o["ite"](c, N(a), N(b)))
    return _o["ite"](c, a, b)


def cmp(op, a, b):
    if anyfn(a, b):
        ok = tm.band(tm.bnot(N(a)), tm.bnot(N(b)))
        va, vb = V(a), V(b)
        inner = tm.TRUE if (va is vb and op != "lt") else (tm.FALSE if va is vb else _o["cmp"](op, va, vb))
        return tm.band(ok, inner)
    return _o["cmp"](op, a, b)


def install():
    if _o: return
    for k in ("add", "mul", "neg", "div", "ipow", "uf", "ite", "cmp", "toreal"):
        _o[k] = getattr(tm, k)
    for k, f in (("add", add), ("mul", mul), ("neg", neg), ("div", div), ("ipow", ipow), ("uf", uf), ("ite", ite), ("cmp", cmp), ("toreal", toreal)):
        setattr(tm, k, f)


def nan_of(x):
    return N(x)


def feq(a, b):
    """equality of two NaN-domain values: same NaN flag and, where not NaN, same value"""
    na, nb = N(a), N(b)
    return tm.band(tm.bor(tm.band(na, nb), tm.band(tm.bnot(na), tm.bnot(nb))), tm.bor(na, _o["cmp"]("eq", V(a), V(b)) if _o else tm.cmp("eq", V(a), V(b))))

"""Symbolic evaluation of jaxprs over the term DAG of vf.terms.

Arrays are numpy object arrays of terms.  Shapes are concrete.  Pure data movement is delegated to
the real JAX primitive applied to arrays of element ids.  Control flow with a symbolic predicate is
either merged (ite) or forked (path-wise exploration driven by a decision plan), see explore().
"""
from __future__ import annotations
import itertools, math
from fractions import Fraction
import numpy as np
import jax, jax.numpy as jnp
from . import terms as tm
from .terms import T, const, conc_array, all_const, to_numpy, arr_ite, scalar, as_arr, sort_of


class NotEncodable(Exception):
    pass


class NeedDecision(Exception):
    def __init__(self, pred, path):
        self.pred = pred; self.path = path


class Ctx:
    """side conditions produced while interpreting: assumptions (stub contracts, lemmas) and
    obligations (in-bounds gathers, while unwinding, overflow)."""
    def __init__(self):
        self.assume = []
        self.oblig = []
        self.fresh = 0
        self.stub_calls = []          # (kind, key terms, output terms) in interpretation order
        self.key_parent = {}          # split output symbol -> (parent key terms, num, k, j)

    def new(self, base, sort):
        self.fresh += 1
        return tm.var(f"{base}!{self.fresh}", sort)


UNARY_UF = {"sin", "cos", "tanh", "exp", "log", "sqrt", "logistic", "erf", "log1p", "expm1", "tan",
            "atan", "asin", "acos", "sinh", "cosh", "erf_inv", "rsqrt"}
UNARY_UF |= {f"phi{k}" for k in range(8)} | {f"psi{j}_{k}" for j in range(6) for k in range(6)}
MOVE = {"broadcast_in_dim", "concatenate", "pad", "reshape", "slice", "squeeze", "expand_dims", "transpose",
        "split", "rev", "gather", "dynamic_slice", "dynamic_update_slice", "scatter", "copy", "copy_p",
        "stack", "unstack", "tile"}
CALLS = {"pjit", "jit", "closed_call", "core_call", "remat", "checkpoint", "custom_jvp_call", "custom_vjp_call",
         "custom_vjp_call_jaxpr", "custom_lin"}

INT32_MAX = 2 ** 31 - 1


def _elementwise(f, ins):
    bs = np.broadcast_arrays(*ins)
    out = np.empty(bs[0].shape, dtype=object)
    for idx in np.ndindex(*out.shape):
        out[idx] = f(*[b[idx] for b in bs])
    return out


def _max(a, b): return tm.ite(tm.cmp("lt", a, b), b, a)
def _min(a, b): return tm.ite(tm.cmp("lt", a, b), a, b)


def fd_perm(ctx, tag, n):
    """one-hot Boolean permutation matrix B[i][k] <=> pi(i) = k, with its constraints assumed."""
    B = [[tm.var(f"P{tag}_{i}_{k}", "Bool") for k in range(n)] for i in range(n)]
    A = ctx.assume
    for i in range(n):
        A.append(tm.disj(B[i]))
        A.append(tm.disj([B[k][i] for k in range(n)]))
        for k in range(n):
            for l in range(k + 1, n):
                A.append(tm.bor(tm.bnot(B[i][k]), tm.bnot(B[i][l])))
                A.append(tm.bor(tm.bnot(B[k][i]), tm.bnot(B[l][i])))
    return B


def pick(B_i, xs):
    r = xs[-1]
    for k in range(len(xs) - 2, -1, -1): r = tm.ite(B_i[k], xs[k], r)
    return r


class Interp:
    def __init__(self, ctx=None, while_bound=8, plan=(), fork_cond=None, fork_while=None,
                 merge_small_while=30, int32_overflow=False, sym_consts=None):
        self.stats = {}
        self.ctx = ctx or Ctx()
        self.while_bound = while_bound
        self.plan = list(plan); self.used = 0; self.path = []
        self.fork_cond = fork_cond            # callable(eqn, pred_term) -> bool ; None = always merge
        self.fork_while = fork_while          # callable(eqn) -> bool ; None = merge
        self.merge_small_while = merge_small_while
        self.int32_overflow = int32_overflow
        self.sym_consts = sym_consts          # callable(index, ndarray) -> object array | None

    # ------------------------------------------------------------------ driver
    def eval_closed(self, closed, *args):
        consts = []
        for k, c in enumerate(closed.consts):
            s = self.sym_consts(k, c) if self.sym_consts else None
            consts.append(s if s is not None else conc_array(np.asarray(c)))
        return self.eval(closed.jaxpr, consts, *args)

    def _sub(self, closed, *args):
        if hasattr(closed, "consts"):
            return self.eval(closed.jaxpr, [conc_array(np.asarray(c)) for c in closed.consts], *args)
        return self.eval(closed, [], *args)

    def eval(self, jaxpr, consts, *args):
        env = {}
        def read(v):
            if type(v).__name__ == "Literal":
                return conc_array(np.asarray(v.val, dtype=v.aval.dtype))
            return env[v]
        for v, c in zip(jaxpr.constvars, consts): env[v] = c
        assert len(jaxpr.invars) == len(args), (len(jaxpr.invars), len(args))
        for v, a in zip(jaxpr.invars, args):
            assert tuple(a.shape) == tuple(v.aval.shape), ("input shape", a.shape, v.aval.shape)
            env[v] = a
        for e in jaxpr.eqns:
            ins = [read(v) for v in e.invars]
            outs = self.apply(e, ins)
            if not e.primitive.multiple_results: outs = [outs]
            for v, o in zip(e.outvars, outs):
                if type(v).__name__ != "DropVar":
                    assert tuple(o.shape) == tuple(v.aval.shape), (e.primitive.name, o.shape, v.aval.shape)
                    env[v] = o
        return [read(v) for v in jaxpr.outvars]

    # ------------------------------------------------------------------ primitives
    def apply(self, e, ins):
        name = e.primitive.name
        self.stats[name] = self.stats.get(name, 0) + 1
        p = e.params
        ew = lambda f: _elementwise(f, ins)
        if name in ("add", "add_any"):
            out = ew(tm.add)
            self._wrap_or_oblige(e, out)
            return out
        if name == "sub":
            out = ew(lambda a, b: tm.add(a, tm.neg(b)))
            self._wrap_or_oblige(e, out)
            return out
        if name == "mul":
            out = ew(tm.mul)
            self._wrap_or_oblige(e, out)
            return out
        if name == "div": return ew(tm.div)
        if name == "neg": return ew(tm.neg)
        if name == "integer_pow": return ew(lambda a: tm.ipow(a, p["y"]))
        if name == "square": return ew(lambda a: tm.mul(a, a))
        if name == "pow":
            def pw(a, b):
                if b.is_const and b.val == int(b.val) and abs(int(b.val)) <= 8: return tm.ipow(a, int(b.val))
                raise NotEncodable("pow with non-integer/symbolic exponent")
            return ew(pw)
        if name == "abs": return ew(lambda a: tm.ite(tm.cmp("lt", a, const(0, a.sort)), tm.neg(a), a))
        if name == "sign":
            return ew(lambda a: tm.ite(tm.cmp("lt", a, const(0, a.sort)), const(-1, a.sort),
                                       tm.ite(tm.cmp("lt", const(0, a.sort), a), const(1, a.sort), const(0, a.sort))))
        if name == "max": return ew(_max)
        if name == "min": return ew(_min)
        if name == "clamp": return ew(lambda lo, x, hi: _min(_max(x, lo), hi))
        if name in UNARY_UF: return ew(lambda a: tm.uf(name, a))
        if name in ("lt", "le", "eq"): return ew(lambda a, b: tm.cmp(name, a, b))
        if name == "gt": return ew(lambda a, b: tm.cmp("lt", b, a))
        if name == "ge": return ew(lambda a, b: tm.cmp("le", b, a))
        if name == "ne": return ew(lambda a, b: tm.bnot(tm.cmp("eq", a, b)))
        if name == "not": return ew(tm.bnot)
        if name == "and": return ew(tm.band)
        if name == "or": return ew(tm.bor)
        if name == "xor": return ew(tm.bxor)
        if name == "is_finite": return ew(self._is_finite)
        if name in ("stop_gradient", "copy", "copy_p", "reduce_precision", "sharding_constraint"): return ins[0]      # (placement only: values unchanged)
        if name == "optimization_barrier": return list(ins)
        if name == "select_n":
            def sel(c, *cases):
                if c.sort == "Bool":
                    return tm.ite(c, cases[1], cases[0])
                r = cases[-1]
                for k in range(len(cases) - 2, -1, -1):
                    r = tm.ite(tm.cmp("eq", c, const(k, "Int")), cases[k], r)
                return r
            return ew(sel)
        if name == "convert_element_type":
            tgt = sort_of(p["new_dtype"])
            def cv(a):
                if a.sort == tgt: return a
                if a.sort == "Bool": return tm.ite(a, const(1, tgt), const(0, tgt))
                if a.sort == "Int" and tgt == "Real": return tm.toreal(a)
                if a.sort == "Real" and tgt == "Int" and a.is_const: return const(math.trunc(a.val), "Int")
                if tgt == "Bool": return tm.bnot(tm.cmp("eq", a, const(0, a.sort)))
                if a.sort == "Real" and tgt == "Int" and getattr(a, "nan", None) is None:
                    # float -> int conversion truncates toward zero: a fresh integer k with its defining constraints
                    # (k <= a < k+1 for a >= 0, k-1 < a <= k for a < 0); int32 range is not modelled
                    self._ntrunc = getattr(self, "_ntrunc", 0) + 1
                    k = tm.var(f"trunc!{len(self.ctx.assume)}_{self._ntrunc}", "Int")
                    kr = tm.toreal(k); zero = const(0, "Real"); one = const(1, "Real")
                    nonneg = tm.cmp("le", zero, a)
                    self.ctx.assume.append(tm.ite(nonneg, tm.band(tm.cmp("le", kr, a), tm.cmp("lt", a, tm.add(kr, one))),
                                                  tm.band(tm.cmp("lt", tm.sub(kr, one), a), tm.cmp("le", a, kr))))
                    return k
                raise NotEncodable(f"convert_element_type {a.sort}->{tgt} on a symbolic value")
            return ew(cv)
        if name in ("floor", "ceil", "round"):
            def fl(a):
                if a.is_const:
                    return const({"floor": math.floor, "ceil": math.ceil, "round": round}[name](a.val), "Real")
                raise NotEncodable(name + " of a symbolic value")
            return ew(fl)
        if name == "iota":
            return conc_array(np.asarray(e.primitive.bind(**p)))
        if name in ("reduce_sum", "reduce_prod", "reduce_max", "reduce_min", "reduce_and", "reduce_or"):
            f = {"reduce_sum": tm.add, "reduce_prod": tm.mul, "reduce_and": tm.band, "reduce_or": tm.bor,
                 "reduce_max": _max, "reduce_min": _min}[name]
            x = ins[0]; axes = tuple(p["axes"])
            keep = [i for i in range(x.ndim) if i not in axes]
            xt = np.transpose(x, keep + list(axes)).reshape([x.shape[i] for i in keep] + [-1])
            out = np.empty(xt.shape[:-1], dtype=object)
            so = sort_of(e.outvars[0].aval.dtype)
            ident = {"reduce_sum": const(0, so), "reduce_prod": const(1, so), "reduce_and": tm.TRUE, "reduce_or": tm.FALSE}.get(name)
            for idx in np.ndindex(*out.shape):
                vals = list(xt[idx])
                if not vals:
                    if ident is None: raise NotEncodable("empty " + name)
                    out[idx] = ident; continue
                r = vals[0]
                for v in vals[1:]: r = f(r, v)
                out[idx] = r
            return out
        if name in ("cumsum", "cumprod", "cummax", "cummin"):
            f = {"cumsum": tm.add, "cumprod": tm.mul, "cummax": _max, "cummin": _min}[name]
            x = np.moveaxis(ins[0], p["axis"], 0)
            out = np.empty(x.shape, dtype=object)
            order = range(x.shape[0] - 1, -1, -1) if p.get("reverse") else range(x.shape[0])
            prev = None
            for i in order:
                out[i] = x[i] if prev is None else _elementwise(f, [as_arr(out[prev]), as_arr(x[i])])
                prev = i
            return np.moveaxis(out, 0, p["axis"])
        if name in ("argmax", "argmin"):
            x = ins[0]; (ax,) = p["axes"]
            xt = np.moveaxis(x, ax, -1)
            out = np.empty(xt.shape[:-1], dtype=object)
            better = (lambda a, b: tm.cmp("lt", b, a)) if name == "argmax" else (lambda a, b: tm.cmp("lt", a, b))
            for idx in np.ndindex(*out.shape):
                vals = list(xt[idx]); bi = const(0, "Int"); bv = vals[0]
                for k in range(1, len(vals)):
                    c = better(vals[k], bv)
                    bi = tm.ite(c, const(k, "Int"), bi); bv = tm.ite(c, vals[k], bv)
                out[idx] = bi
            return out
        if name == "dot_general": return self.dot_general(e, ins)
        if name in ("dynamic_slice", "dynamic_update_slice", "gather", "scatter", "scatter-add", "scatter_add"):
            nd = {"dynamic_slice": 1, "dynamic_update_slice": 2}.get(name)
            idx_ops = ins[nd:] if nd else [ins[1]]
            if all(all_const(a) for a in idx_ops) and name not in ("scatter-add", "scatter_add"):
                return self.move(e, ins)
            self.stats[name + "/sym"] = self.stats.get(name + "/sym", 0) + 1
            return getattr(self, "sym_" + name.replace("-", "_"))(e, ins)
        if name in MOVE: return self.move(e, ins)
        if name in CALLS:
            sub = p.get("jaxpr") or p.get("call_jaxpr") or p.get("fun_jaxpr")
            return self._sub(sub, *ins)
        if name == "scan": return self.scan(e, ins)
        if name == "cond": return self.cond(e, ins)
        if name == "while": return self.while_(e, ins)
        if name in ("empty2", "empty"):
            av = e.outvars[0].aval
            return conc_array(np.zeros(av.shape, av.dtype))
        if name == "rem":
            def rem(a, b):
                if a.sort == "Real": raise NotEncodable("float rem")
                if a.is_const and b.is_const: return tm.imod(a, b)
                if a.is_const and a.val >= 0:
                    self.ctx.oblig.append(("rem divisor positive", tm.cmp("le", const(1, "Int"), b)))
                    r = a
                    for d in range(1, int(a.val) + 1):
                        r = tm.ite(tm.cmp("eq", b, const(d, "Int")), const(int(a.val) % d, "Int"), r)
                    return r
                if b.is_const and b.val > 0:
                    return tm.imod(a, b)
                raise NotEncodable("rem with symbolic dividend and divisor")
            return ew(rem)
        if name in ("debug_callback", "debug_print"): return []
        if name == "sort": return self.sort(e, ins)
        if name == "top_k": return self.top_k(e, ins)
        if name.startswith("rs_"): return self.stub(e, ins)
        raise NotEncodable(f"primitive {name} (params {list(p)})")

    def _is_finite(self, a):
        # reals are finite; in the NaN domain (vf.nanmode) a value is non-finite exactly when its NaN flag is set (+-inf is outside the model)
        nan = getattr(a, "nan", None)
        return tm.TRUE if nan is None else tm.bnot(nan)

    def _wrap_or_oblige(self, e, out):
        if np.dtype(e.outvars[0].aval.dtype) == np.int32:
            if self.int32_overflow: self._overflow(e, out)
            else:
                for idx in np.ndindex(*out.shape):
                    t = out[idx]
                    if isinstance(t, T) and t.is_const and not (-INT32_MAX - 1 <= t.val <= INT32_MAX):
                        out[idx] = const(((t.val + 2 ** 31) % 2 ** 32) - 2 ** 31, "Int")

    def _overflow(self, e, out):
        av = e.outvars[0].aval
        if np.dtype(av.dtype) != np.int32: return
        for idx in np.ndindex(*out.shape):
            t = out[idx]
            if isinstance(t, T) and t.is_const and not (-INT32_MAX - 1 <= t.val <= INT32_MAX):
                out[idx] = const(((t.val + 2 ** 31) % 2 ** 32) - 2 ** 31, "Int")     # two's complement wrap, as XLA does
        for t in out.flat:
            if isinstance(t, T) and not t.is_const:
                self.ctx.oblig.append(("int32 overflow", tm.band(tm.cmp("le", const(-INT32_MAX - 1, "Int"), t),
                                                               tm.cmp("le", t, const(INT32_MAX, "Int")))))

    def dot_general(self, e, ins):
        (lc, rc), (lb, rb) = e.params["dimension_numbers"]
        a, b = ins
        if sort_of(e.outvars[0].aval.dtype) == "Real":       # mixed-dtype operands (preferred_element_type)
            cvt = lambda arr: _elementwise(lambda t: tm.toreal(t) if getattr(t, "sort", "Real") == "Int" else t, [arr])
            a, b = cvt(a), cvt(b)
        lfree = [i for i in range(a.ndim) if i not in lc and i not in lb]
        rfree = [i for i in range(b.ndim) if i not in rc and i not in rb]
        at = np.transpose(a, list(lb) + lfree + list(lc))
        bt = np.transpose(b, list(rb) + rfree + list(rc))
        bshape = [a.shape[i] for i in lb]
        out = np.empty(bshape + [a.shape[i] for i in lfree] + [b.shape[i] for i in rfree], dtype=object)
        cshape = [a.shape[i] for i in lc]
        so = sort_of(e.outvars[0].aval.dtype)
        for bi in np.ndindex(*bshape):
            for li in np.ndindex(*[a.shape[i] for i in lfree]):
                for ri in np.ndindex(*[b.shape[i] for i in rfree]):
                    r = const(0, so)
                    for ci in np.ndindex(*cshape):
                        r = tm.add(r, tm.mul(at[bi + li + ci], bt[bi + ri + ci]))
                    out[bi + li + ri] = r
        return out

    def move(self, e, ins):
        """Pure data movement: run the real primitive on arrays of element ids."""
        name = e.primitive.name
        data_idx = {"gather": [0], "dynamic_slice": [0], "dynamic_update_slice": [0, 1], "scatter": [0, 2]}.get(name, list(range(len(ins))))
        if name == "pad": data_idx = [0, 1]
        flat = []
        args = []
        for k, a in enumerate(ins):
            if k in data_idx:
                ids = (np.arange(a.size, dtype=np.int64) + len(flat)).reshape(a.shape)
                flat.extend(a.flat)
                args.append(jnp.asarray(ids))
            else:
                if not all_const(a):
                    raise NotEncodable("symbolic index in " + name)
                args.append(jnp.asarray(to_numpy(a, e.invars[k].aval.dtype)))
        with jax.ensure_compile_time_eval():
            out = e.primitive.bind(*args, **e.params)
        outs = out if e.primitive.multiple_results else [out]
        res = []
        for o, ov in zip(outs, e.outvars):
            o = np.asarray(o)
            r = np.empty(o.shape, dtype=object)
            for idx in np.ndindex(*o.shape):
                k = int(o[idx])
                if 0 <= k < len(flat):
                    r[idx] = flat[k]
                else:
                    # the primitive produced a value that is not one of its inputs (out-of-bounds fill: NaN for floats):
                    # an unconstrained fresh symbol, so that no property about it can be proved
                    self.ctx.fresh += 1
                    r[idx] = tm.var(f"FILL!{name}!{self.ctx.fresh}", sort_of(ov.aval.dtype))
                    self.stats["fill"] = self.stats.get("fill", 0) + 1
            res.append(r)
        return res if e.primitive.multiple_results else res[0]

    # ------------------------------------------------------------------ control flow
    def scan(self, e, ins):
        p = e.params
        if "num_consts" in p: nc, ncar = p["num_consts"], p["num_carry"]
        else: nc, ncar = len(p["ft_in"].elts[0]), len(p["ft_in"].elts[1])
        consts, carry, xs = ins[:nc], ins[nc:nc + ncar], ins[nc + ncar:]
        L = p["length"]
        body = p["jaxpr"]
        ys = []
        rng = range(L - 1, -1, -1) if p["reverse"] else range(L)
        for i in rng:
            out = self._sub(body, *consts, *carry, *[as_arr(x[i]) for x in xs])
            carry, y = out[:ncar], out[ncar:]
            ys.append(y)
        if p["reverse"]: ys = ys[::-1]
        nys = len(e.outvars) - ncar
        stacked = []
        for k in range(nys):
            if L:
                stacked.append(np.stack([y[k] for y in ys], axis=0))
            else:
                stacked.append(np.empty(e.outvars[ncar + k].aval.shape, dtype=object))
        return list(carry) + stacked

    def _decide(self, pred):
        if self.used >= len(self.plan):
            raise NeedDecision(pred, list(self.path))
        go = self.plan[self.used]; self.used += 1
        self.path.append(pred if go else tm.bnot(pred))
        return go

    def cond(self, e, ins):
        i = scalar(ins[0]); ops = ins[1:]
        brs = e.params["branches"]
        if getattr(i, "is_const", False):
            k = int(i.val)
            b = brs[min(max(k, 0), len(brs) - 1)]
            return self._sub(b, *ops)
        if len(brs) == 2 and self.fork_cond is not None and self.fork_cond(e, i):
            c = tm.bnot(tm.cmp("le", i, const(0, "Int")))     # index > 0 -> branch 1
            go = self._decide(c)
            return self._sub(brs[1 if go else 0], *ops)
        outs = [self._sub(b, *ops) for b in brs]
        res = []
        for k in range(len(outs[0])):
            r = outs[-1][k]
            for j in range(len(brs) - 2, -1, -1):
                c = tm.cmp("le", i, const(0, "Int")) if j == 0 else tm.cmp("eq", i, const(j, "Int"))
                r = arr_ite(c, outs[j][k], r)
            res.append(r)
        return res

    def while_(self, e, ins):
        p = e.params
        cn, bn = p["cond_nconsts"], p["body_nconsts"]
        cc, bc, st = ins[:cn], ins[cn:cn + bn], list(ins[cn + bn:])
        cj, bj = p["cond_jaxpr"], p["body_jaxpr"]
        fork = self.fork_while is not None and self.fork_while(e) and _neqns(bj.jaxpr) >= self.merge_small_while
        for it in range(self.while_bound + 1):
            c = scalar(self._sub(cj, *cc, *st)[0])
            if c.is_const:
                if not c.val: return st
                go_sym = None
            elif fork:
                if not self._decide(c): return st
                go_sym = None
            else:
                go_sym = c
            if it == self.while_bound:
                self.ctx.oblig.append(("while unwinding bound", tm.bnot(c) if not c.is_const else tm.FALSE))
                return st
            new = self._sub(bj, *bc, *st)
            st = new if go_sym is None else [arr_ite(go_sym, n_, o_) for n_, o_ in zip(new, st)]
        return st

    # ------------------------------------------------------------------ symbolic indices
    def _clamp(self, s, lo, hi):
        return tm.ite(tm.cmp("lt", s, const(lo, "Int")), const(lo, "Int"),
                      tm.ite(tm.cmp("lt", const(hi, "Int"), s), const(hi, "Int"), s))

    def sym_dynamic_slice(self, e, ins):
        x, starts = ins[0], [scalar(s) for s in ins[1:]]
        sizes = e.params["slice_sizes"]
        for ax, (s, sz) in enumerate(zip(starts, sizes)):
            mx = x.shape[ax] - sz
            if s.is_const:
                k = min(max(int(s.val), 0), mx)
                x = np.take(x, range(k, k + sz), axis=ax)
            else:
                r = np.take(x, range(mx, mx + sz), axis=ax)       # s >= mx (clamped)
                for k in range(mx - 1, 0, -1):
                    r = arr_ite(tm.cmp("eq", s, const(k, "Int")), np.take(x, range(k, k + sz), axis=ax), r)
                if mx > 0:
                    r = arr_ite(tm.cmp("le", s, const(0, "Int")), np.take(x, range(0, sz), axis=ax), r)
                x = r
        return x

    def sym_dynamic_update_slice(self, e, ins):
        x, upd, starts = ins[0], ins[1], [scalar(s) for s in ins[2:]]
        ranges = []
        for ax, s in enumerate(starts):
            mx = x.shape[ax] - upd.shape[ax]
            if s.is_const: ranges.append([(min(max(int(s.val), 0), mx), tm.TRUE)])
            else:
                sc = self._clamp(s, 0, mx)
                ranges.append([(k, tm.cmp("eq", sc, const(k, "Int"))) for k in range(mx + 1)])
        res = None
        for combo in itertools.product(*ranges):
            y = x.copy()
            sl = tuple(slice(k, k + upd.shape[ax]) for ax, (k, _) in enumerate(combo))
            y[sl] = upd
            c = tm.conj([cc for _, cc in combo])
            res = y if res is None else arr_ite(c, y, res)
        return res

    def sym_gather(self, e, ins):
        x, idx = ins
        dn = e.params["dimension_numbers"]; ss = e.params["slice_sizes"]
        ok = (tuple(dn.collapsed_slice_dims) == (0,) and tuple(dn.start_index_map) == (0,) and ss[0] == 1
              and tuple(ss[1:]) == tuple(x.shape[1:]) and idx.shape[-1] == 1
              and not getattr(dn, "operand_batching_dims", ()))
        if not ok: raise NotEncodable(f"gather form {dn} {ss}")
        n = x.shape[0]
        bshape = idx.shape[:-1]
        if tuple(dn.offset_dims) != tuple(range(len(bshape), len(bshape) + x.ndim - 1)):
            raise NotEncodable(f"gather offset dims {dn}")
        mode = str(e.params.get("mode")).lower()
        out = np.empty(tuple(bshape) + tuple(x.shape[1:]), dtype=object)
        so = sort_of(e.outvars[0].aval.dtype)
        for b in np.ndindex(*bshape):
            i = idx[b + (0,)]
            inb = tm.band(tm.cmp("le", const(0, "Int"), i), tm.cmp("lt", i, const(n, "Int")))
            r = x[n - 1]
            for k in range(n - 2, -1, -1):
                c = tm.cmp("eq", i, const(k, "Int")) if k > 0 or "clip" not in mode else tm.cmp("le", i, const(0, "Int"))
                r = arr_ite(c, x[k], r) if isinstance(r, np.ndarray) else tm.ite(c, x[k], r)
            if "fill" in mode:
                # out-of-bounds rows are filled (NaN for floats): a fresh unconstrained symbol per element
                self.ctx.fresh += 1
                if isinstance(r, np.ndarray):
                    fillv = np.empty(r.shape, dtype=object)
                    for ix in np.ndindex(*r.shape): fillv[ix] = tm.var(f"FILL!gather!{self.ctx.fresh}" + "".join(f"_{q}" for q in ix), so)
                    r = arr_ite(inb, r, fillv)
                else:
                    r = tm.ite(inb, r, tm.var(f"FILL!gather!{self.ctx.fresh}", so))
            elif "clip" in mode:
                pass            # indices are clamped: x[0] for i <= 0 (above), x[n-1] for i >= n-1 (the chain's default)
            else:
                self.ctx.oblig.append(("gather index in bounds", inb))
            out[b] = r
        return out

    def sym_scatter(self, e, ins, addmode=False):
        x, idx, upd = ins
        dn = e.params["dimension_numbers"]
        if not (tuple(dn.inserted_window_dims) == (0,) and tuple(dn.scatter_dims_to_operand_dims) == (0,)):
            raise NotEncodable(f"scatter form {dn}")
        n = x.shape[0]
        idx2 = idx.reshape(-1, 1)
        upd2 = upd.reshape((idx2.shape[0],) + x.shape[1:])
        out = x.copy()
        for k in range(idx2.shape[0]):
            i = idx2[k, 0]
            new = np.empty_like(out)
            for j in range(n):
                c = tm.cmp("eq", i, const(j, "Int"))
                if x.ndim == 1:
                    new[j] = tm.ite(c, tm.add(out[j], upd2[k]) if addmode else upd2[k], out[j])
                else:
                    src = _elementwise(tm.add, [out[j], upd2[k]]) if addmode else upd2[k]
                    new[j] = arr_ite(c, src, out[j])
            out = new
        return out

    def sym_scatter_add(self, e, ins): return self.sym_scatter(e, ins, addmode=True)

    # ------------------------------------------------------------------ sort / top_k (declarative contract)
    def sort(self, e, ins):
        p = e.params
        if not (p["num_keys"] == 1 and all(a.ndim == 1 for a in ins) and p["dimension"] == 0):
            raise NotEncodable("sort form")
        n = ins[0].shape[0]
        if all_const(ins[0]):
            order = sorted(range(n), key=lambda i: ins[0][i].val)
            return [np.array([a[i] for i in order], dtype=object) for a in ins]
        self.ctx.fresh += 1
        B = fd_perm(self.ctx, f"s{self.ctx.fresh}", n)
        outs = []
        for a in ins:
            o = np.empty((n,), dtype=object)
            for i in range(n): o[i] = pick(B[i], list(a))
            outs.append(o)
        ks = outs[0]
        for i in range(n - 1): self.ctx.assume.append(tm.cmp("le", ks[i], ks[i + 1]))
        self.ctx.stub_calls.append(("sort", list(ins[0]), B))
        return outs

    def top_k(self, e, ins):
        x = ins[0]; k = e.params["k"]
        if x.ndim != 1: raise NotEncodable("top_k on ndim>1")
        n = x.shape[0]
        self.ctx.fresh += 1
        B = fd_perm(self.ctx, f"t{self.ctx.fresh}", n)
        vals = [pick(B[i], list(x)) for i in range(n)]
        idxs = [pick(B[i], [const(j, "Int") for j in range(n)]) for i in range(n)]
        for i in range(n - 1): self.ctx.assume.append(tm.cmp("le", vals[i + 1], vals[i]))
        ov = np.empty((k,), dtype=object); oi = np.empty((k,), dtype=object)
        ov[:] = vals[:k]; oi[:] = idxs[:k]
        return [ov, oi]

    # ------------------------------------------------------------------ jax.random stubs
    def stub(self, e, ins):
        name = e.primitive.name; p = e.params
        key = list(ins[0].flat)
        kid = "_".join(str(k.val) if k.is_const else f"t{k.id}" for k in key)
        if name == "rs_split":
            num = p["num"]
            out = np.empty((num, len(key)), dtype=object)
            for k in range(num):
                for j in range(len(key)):
                    out[k, j] = tm.var(f"K[{kid}]s{k}w{j}", "Int")
                    self.ctx.key_parent[out[k, j]] = (tuple(key), num, k, j)
            return out
        if name == "rs_uniform":
            shape = p["shape"]
            out = np.empty(shape, dtype=object)
            for n_, ix in enumerate(np.ndindex(*shape)):
                u = tm.var(f"U[{kid}]{n_}", "Real")
                self.ctx.assume.append(tm.cmp("le", const(0, "Real"), u))
                self.ctx.assume.append(tm.cmp("lt", u, const(1, "Real")))
                out[ix] = u
            self.ctx.stub_calls.append(("uniform", key, out, kid))
            return out
        if name in ("rs_perm", "rs_perm_nop"):
            n = p["n"]
            # choice(key, a, replace=False) without p IS permutation(key, a) in JAX (same stream); with p it is a different function
            # of the key (Gumbel top-k): its draw is an independent symbol family
            B = fd_perm(self.ctx, f"[{kid}]" + ("p" if name == "rs_perm" else ""), n)
            pi = [pick(B[i], [const(k, "Int") for k in range(n)]) for i in range(n)]
            if name == "rs_perm":
                pr = ins[1]
                pos = [tm.disj([tm.band(B[i][m], tm.cmp("lt", const(0, "Real"), pr[m])) for m in range(n)]) for i in range(n)]
                for i in range(n - 1):
                    # zero-probability entries never precede positive ones (Gumbel top-k behaviour)
                    self.ctx.assume.append(tm.bor(pos[i], tm.bnot(pos[i + 1])))
            out = np.empty((n,), dtype=object); out[:] = pi
            self.ctx.stub_calls.append(("perm", key, B, kid))
            return out
        raise NotEncodable(name)


def _neqns(jaxpr):
    n = 0
    for e in jaxpr.eqns:
        n += 1
        for v in e.params.values():
            for sub in (v if isinstance(v, (list, tuple)) else [v]):
                if hasattr(sub, "jaxpr") and hasattr(sub, "consts"): n += _neqns(sub.jaxpr)
                elif hasattr(sub, "eqns"): n += _neqns(sub)
    return n


def collect_prims(jaxpr, acc=None):
    acc = {} if acc is None else acc
    for e in jaxpr.eqns:
        acc[e.primitive.name] = acc.get(e.primitive.name, 0) + 1
        for v in e.params.values():
            for sub in (v if isinstance(v, (list, tuple)) else [v]):
                if hasattr(sub, "jaxpr") and hasattr(sub, "consts"): collect_prims(sub.jaxpr, acc)
                elif hasattr(sub, "eqns"): collect_prims(sub, acc)
    return acc


def explore(run, feasible, max_paths=600):
    """run(plan) -> (result, interp).  Depth-first path exploration with feasibility pruning.
    Returns [(plan, path_condition_terms, result, interp)]."""
    todo = [()]; out = []; nfeas = 0
    while todo:
        plan = todo.pop()
        try:
            res, it = run(plan)
            out.append((plan, list(it.path), res, it))
        except NeedDecision as ex:
            for go in (False, True):
                c = ex.pred if go else tm.bnot(ex.pred)
                nfeas += 1
                if feasible(ex.path + [c]): todo.append(plan + (go,))
        if len(out) > max_paths:
            raise NotEncodable(f"path budget {max_paths} exceeded")
    return out, nfeas

"""Symbolic function families wrapped in jinns' own network classes, and their closed-form
derivatives (oracles written in the term language, independent of JAX AD)."""
import itertools
from fractions import Fraction
import numpy as np
import jax, jax.numpy as jnp, equinox as eqx
from . import terms as tm
from .terms import const, add, mul, ipow, uf
from .stubs import phi


def monos(d, deg):
    return tuple(e for e in itertools.product(range(deg + 1), repeat=d) if sum(e) <= deg)


class PolyNet(eqx.Module):
    coef: jax.Array
    exps: tuple = eqx.field(static=True)

    def __call__(self, z):
        feats = jnp.stack([jnp.prod(jnp.stack([z[i] ** e for i, e in enumerate(ex)])) for ex in self.exps])
        return self.coef @ feats


class Ridge(eqx.Module):
    W: jax.Array
    b: jax.Array
    a: jax.Array

    def __call__(self, z):
        return self.a @ phi(self.W @ z + self.b)


class PR(eqx.Module):
    """Poly + Ridge field."""
    poly: PolyNet
    ridge: Ridge

    def __call__(self, z):
        return self.poly(z) + self.ridge(z)


def mk_pr(d_in, n_out, deg=2, H=1):
    ex = monos(d_in, deg)
    return PR(PolyNet(jnp.ones((n_out, len(ex))) * 0.5, ex),
              Ridge(jnp.ones((H, d_in)) * 0.3, jnp.ones((H,)) * 0.2, jnp.ones((n_out, H)) * 0.7))


idt = lambda i, p: i
odt = lambda i, o, p: o


def mk_pinn(d_in, n_out, eq_type, deg=2, H=1, it=idt, ot=odt, slice_solution=None):
    from jinns.utils._pinn import PINN
    net = mk_pr(d_in, n_out, deg, H)
    sl = jnp.s_[0:n_out] if slice_solution is None else slice_solution
    return PINN(mlp=net, slice_solution=sl, eq_type=eq_type, input_transform=it, output_transform=ot)


# ------------------------------------------------------------------------------- closed forms
def falling(e, k):
    r = 1
    for i in range(k): r *= (e - i)
    return r


def poly_deriv(coef_row, exps, z, alpha):
    """d^alpha of sum_k c_k z^e_k ; alpha multi-index tuple"""
    r = const(0, "Real")
    for k, e in enumerate(exps):
        if any(e[i] < alpha[i] for i in range(len(z))): continue
        c = 1
        term = coef_row[k]
        for i in range(len(z)):
            c *= falling(e[i], alpha[i]); term = mul(term, ipow(z[i], e[i] - alpha[i]))
        r = add(r, mul(const(c, "Real"), term))
    return r


def ridge_deriv(W, b, a_row, z, alpha, ufname="phi"):
    H = W.shape[0]; m = sum(alpha); r = const(0, "Real")
    for k in range(H):
        pre = b[k]
        for i in range(len(z)): pre = add(pre, mul(W[k, i], z[i]))
        t = mul(a_row[k], uf(f"{ufname}{m}", pre))
        for i in range(len(z)): t = mul(t, ipow(W[k, i], alpha[i]))
        r = add(r, t)
    return r


def D(net, z, alpha=None, comp=0):
    """closed-form d^alpha of component `comp` of a symbolic PR module at the point z (list of terms)."""
    if alpha is None: alpha = (0,) * len(z)
    return add(poly_deriv(net.poly.coef[comp], net.poly.exps, z, alpha),
               ridge_deriv(net.ridge.W, net.ridge.b, net.ridge.a[comp], z, alpha))


def unit(d, i, k=1):
    return tuple(k if j == i else 0 for j in range(d))


def sq(x): return mul(x, x)
def mean(xs): return mul(tm.ssum(xs), const(Fraction(1, len(xs)), "Real"))

"""JAX-level stubs used by the harnesses (each is part of the claim, see DESIGN.md 2.3/2.4):

* phi0..phi5     : an uninterpreted smooth scalar function and its derivatives (JVP chain);
* psi{j}_{k}     : further uninterpreted smooth functions (user callables), j < NPSI, k <= 3;
* rs_split / rs_uniform / rs_perm / rs_perm_nop : jax.random.split / uniform / choice(replace=False)
  as primitives that carry the documented contract only.

The *concrete* implementations (used for translator validation and for replaying counterexamples on
the real code) are fixed polynomials / trigonometric functions, mirrored in terms.UF_INTERP.
"""
import math
import numpy as np
import jax, jax.numpy as jnp
from jax.extend import core as jcore
from jax.interpreters import ad, batching, mlir
import jax._src.core as _core
from . import terms as tm

MAXORD = 5
NPSI = 6
PSIORD = 3


def _phi_py(k):
    # phi(s) = sum_{m=1..6} s^m/m!  (all derivatives up to order 5 are non-constant polynomials)
    def f(x):
        return sum(x ** (m - k) / math.factorial(m - k) for m in range(max(k, 1), 7))
    return f


def _phi_jnp(k):
    def f(x):
        r = 0.0
        for m in range(max(k, 1), 7):
            r = r + x ** (m - k) / math.factorial(m - k)
        return r + 0.0 * x
    return f


def _psi_py(j, k):
    # psi_j(s) = cos(s + j) + (j+1) s^2 / 4 ; derivatives by hand
    def f(x):
        trig = [math.cos, lambda y: -math.sin(y), lambda y: -math.cos(y), math.sin][k % 4](x + j)
        poly = [(j + 1) * x * x / 4, (j + 1) * x / 2, (j + 1) / 2, 0.0][k] if k < 4 else 0.0
        return trig + poly
    return f


def _psi_jnp(j, k):
    def f(x):
        trig = [jnp.cos, lambda y: -jnp.sin(y), lambda y: -jnp.cos(y), jnp.sin][k % 4](x + j)
        poly = [(j + 1) * x * x / 4, (j + 1) * x / 2, (j + 1) / 2 + 0.0 * x, 0.0 * x][k] if k < 4 else 0.0 * x
        return trig + poly
    return f


def _mkprim(name, impl):
    p = jcore.Primitive(name)
    p.def_impl(impl)
    p.def_abstract_eval(lambda x: x)
    batching.defvectorized(p)
    mlir.register_lowering(p, mlir.lower_fun(impl, multiple_results=False))
    return p


PHI = [_mkprim(f"phi{k}", _phi_jnp(k)) for k in range(MAXORD + 1)]
for k in range(MAXORD):
    ad.defjvp(PHI[k], (lambda kk: (lambda g, x: g * PHI[kk + 1].bind(x)))(k))
    tm.UF_INTERP[f"phi{k}"] = _phi_py(k)
tm.UF_INTERP[f"phi{MAXORD}"] = _phi_py(MAXORD)

PSI = [[_mkprim(f"psi{j}_{k}", _psi_jnp(j, k)) for k in range(PSIORD + 1)] for j in range(NPSI)]
for j in range(NPSI):
    for k in range(PSIORD + 1):
        tm.UF_INTERP[f"psi{j}_{k}"] = _psi_py(j, k)
        if k < PSIORD:
            ad.defjvp(PSI[j][k], (lambda jj, kk: (lambda g, x: g * PSI[jj][kk + 1].bind(x)))(j, k))

for _n, _f in dict(sin=math.sin, cos=math.cos, tanh=math.tanh, exp=math.exp, log=math.log, sqrt=math.sqrt,
                   tan=math.tan, erf=math.erf, log1p=math.log1p, expm1=math.expm1, atan=math.atan,
                   sinh=math.sinh, cosh=math.cosh, asin=math.asin, acos=math.acos,
                   logistic=lambda x: 1 / (1 + math.exp(-x)), rsqrt=lambda x: 1 / math.sqrt(x),
                   inv=lambda x: 1.0 / x).items():
    tm.UF_INTERP[_n] = _f


def phi(x):
    return PHI[0].bind(jnp.asarray(x))


def psi(j):
    return lambda x: PSI[j][0].bind(jnp.asarray(x))


# ------------------------------------------------------------------------------------------ jax.random
_orig = dict(split=jax.random.split, uniform=jax.random.uniform, choice=jax.random.choice, permutation=jax.random.permutation)
SCRIPT = {"perm": None, "uniform": None}     # replay scripts: dict key-bytes -> value


def _kb(key):
    return bytes(np.asarray(key).tobytes())


split_p = jcore.Primitive("rs_split")
split_p.def_abstract_eval(lambda key, *, num: _core.ShapedArray((num,) + key.shape, key.dtype))
split_p.def_impl(lambda key, *, num: _orig["split"](key, num))

uniform_p = jcore.Primitive("rs_uniform")   # unit uniform in [0,1)
uniform_p.def_abstract_eval(lambda key, *, shape, dtype: _core.ShapedArray(shape, dtype))


def _uniform_impl(key, *, shape, dtype):
    s = SCRIPT["uniform"]
    if s is not None and _kb(key) in s:
        return jnp.asarray(s[_kb(key)], dtype=dtype).reshape(shape)
    return _orig["uniform"](key, shape, dtype)


uniform_p.def_impl(_uniform_impl)

perm_p = jcore.Primitive("rs_perm")   # permutation indices, zero-probability entries last
perm_p.def_abstract_eval(lambda key, p, *, n: _core.ShapedArray((n,), jnp.int32))


def _perm_impl(key, p, *, n):
    s = SCRIPT["perm"]
    if s is not None and _kb(key) in s:
        return jnp.asarray(s[_kb(key)], dtype=jnp.int32)
    return _orig["choice"](key, jnp.arange(n), shape=(n,), replace=False, p=p).astype(jnp.int32)


perm_p.def_impl(_perm_impl)
permnp_p = jcore.Primitive("rs_perm_nop")
permnp_p.def_abstract_eval(lambda key, *, n: _core.ShapedArray((n,), jnp.int32))


def _permnp_impl(key, *, n):
    s = SCRIPT["perm"]
    if s is not None and _kb(key) in s:
        return jnp.asarray(s[_kb(key)], dtype=jnp.int32)
    return _orig["choice"](key, jnp.arange(n), shape=(n,), replace=False).astype(jnp.int32)


permnp_p.def_impl(_permnp_impl)
for _p in (split_p, uniform_p, perm_p, permnp_p):
    mlir.register_lowering(_p, mlir.lower_fun(_p.impl, multiple_results=False))


def split(key, num=2):
    return split_p.bind(key, num=int(num))


def uniform(key, shape=(), dtype=float, minval=0.0, maxval=1.0):
    dtype = jnp.zeros((), dtype).dtype
    import operator
    u = uniform_p.bind(key, shape=tuple(operator.index(s) for s in shape), dtype=dtype)     # concrete arrays are valid sizes (as in jax.random)
    return minval + (maxval - minval) * u


def choice(key, a, shape=(), replace=True, p=None, axis=0):
    a = jnp.asarray(a)
    n = a.shape[0]
    if replace or tuple(shape) != (n,) or axis != 0:
        raise NotImplementedError("random.choice stub covers only the use made by jinns (full permutation)")
    idx = permnp_p.bind(key, n=n) if p is None else perm_p.bind(key, p, n=n)
    return a[idx]


def permutation(key, x, axis=0, independent=False):
    """contract of jax.random.permutation along axis 0: x[pi] for an arbitrary permutation pi; with independent=True
    every column (index along the other axes) gets its OWN arbitrary permutation"""
    x = jnp.arange(x) if isinstance(x, int) else jnp.asarray(x)
    if axis != 0:
        raise NotImplementedError("random.permutation stub covers axis=0 only")
    n = x.shape[0]
    if not independent or x.ndim == 1:
        return x[permnp_p.bind(key, n=n)]
    cols = x.reshape(n, -1)
    keys = split(key, cols.shape[1])
    out = jnp.stack([cols[:, j][permnp_p.bind(keys[j], n=n)] for j in range(cols.shape[1])], axis=1)
    return out.reshape(x.shape)


def install():
    jax.random.split = split; jax.random.uniform = uniform; jax.random.choice = choice; jax.random.permutation = permutation


def uninstall():
    for k, v in _orig.items(): setattr(jax.random, k, v)


class stubbed:
    def __enter__(self): install()
    def __exit__(self, *a): uninstall()


# ------------------------------------------------------------------------------------------ equinox
def patch_equinox():
    """equinox's warning-only static-field check calls tracer.__jax_array__() (None on this JAX) and
    crashes when a module is constructed under tracing; make that check tolerant (no effect on values)."""
    import equinox._module._module as _m
    if getattr(_m, "_vf_patched", False): return
    _orig_f = _m.is_inexact_array_like
    def _safe(e):
        try: return _orig_f(e)
        except TypeError: return False
    _m.is_inexact_array_like = _safe
    _m._vf_patched = True

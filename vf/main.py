"""CLI: ./check <Cxx> quick|thorough   |   ./check <Cxx> --replay <file>"""
import sys, os, json, time, importlib, fnmatch, traceback
from concurrent.futures import ProcessPoolExecutor, as_completed
import multiprocessing as mp

ROOT = os.path.dirname(os.path.dirname(os.path.abspath(__file__)))


def _init_worker():
    import warnings; warnings.filterwarnings("ignore")
    try: sys.set_int_max_str_digits(0)
    except AttributeError: pass
    os.environ.setdefault("JAX_PLATFORMS", "cpu")
    os.environ.setdefault("XLA_FLAGS", "--xla_cpu_multi_thread_eigen=false intra_op_parallelism_threads=1")
    os.environ.setdefault("JINNS_VERIF", "1")


def run_config(prop, cfg, tier, seed, replay=None):
    _init_worker()
    import jax
    jax.config.update("jax_enable_x64", bool(cfg.get("x64", True)))
    from vf import stubs
    stubs.patch_equinox()
    from vf.harness import Recorder
    mod = importlib.import_module(f"vf.props.{prop.lower()}")
    R = Recorder(prop, cfg, tier, seed, replay=replay)
    t0 = time.time()
    try:
        mod.run(cfg, R)
    except Exception as ex:
        from vf.interp import NotEncodable
        if isinstance(ex, NotEncodable):
            R.inconclusive.append(f"not encodable: {ex}")
        else:
            R.errors.append("harness exception: " + "".join(traceback.format_exception_only(type(ex), ex)).strip()
                            + " @ " + traceback.format_exc().strip().splitlines()[-3].strip())
    out = R.result(); out["wall_s"] = time.time() - t0
    return out


def load_known():
    p = os.path.join(ROOT, "known_findings.json")
    if not os.path.exists(p): return []
    return json.load(open(p)).get("findings", [])


def main(argv):
    if len(argv) < 2:
        print(__doc__); return 3
    prop = argv[0].upper()
    mod = importlib.import_module(f"vf.props.{prop.lower()}")
    seed = int(os.environ.get("VERIF_SEED", "0") or 0)
    if argv[1] == "--replay":
        rp = json.load(open(argv[2]))
        res = run_config(prop, rp["cfg"], rp.get("tier", "quick"), rp.get("seed", seed), replay=rp)
        rr = res.get("replay_result")
        print(json.dumps(dict(replay=argv[2], result=rr, errors=res["errors"]), indent=1))
        if rr and rr.get("reproduced"):
            print(f"VIOLATION property={prop} replay={argv[2]}"); return 1
        return 0 if rr and rr.get("reproduced") is False else 3
    tier = argv[1]
    assert tier in ("quick", "thorough"), tier
    t0 = time.time()
    cfgs = mod.configs(tier)
    only = os.environ.get("VF_ONLY")
    if only: cfgs = [c for c in cfgs if only in json.dumps(c, sort_keys=True)]
    nproc = int(os.environ.get("VF_JOBS", "0") or 0) or min(14, max(1, len(cfgs)))
    results = []
    if nproc == 1 or len(cfgs) == 1:
        for c in cfgs: results.append(run_config(prop, c, tier, seed))
    else:
        ctx = mp.get_context("spawn")
        # INFO['fresh_process']: one process per configuration (properties about state kept between calls / objects: module-level
        # state left by one configuration must not reach the next one)
        extra = dict(max_tasks_per_child=1) if getattr(mod, "INFO", {}).get("fresh_process") else {}
        with ProcessPoolExecutor(max_workers=nproc, mp_context=ctx, **extra) as ex:
            futs = {ex.submit(run_config, prop, c, tier, seed): c for c in cfgs}
            for f in as_completed(futs):
                try:
                    results.append(f.result())
                    if os.environ.get("VF_PROGRESS"):
                        print(f"[progress] {len(results)}/{len(cfgs)} {results[-1].get('wall_s', 0):.0f}s {json.dumps(futs[f], sort_keys=True)}", file=sys.stderr, flush=True)
                except Exception as e:
                    results.append(dict(cfg=futs[f], records=[], violations=[], errors=[f"worker crashed: {e!r}"],
                                        inconclusive=[], functions=[], assumptions=[], stubs=[], validation=[], twins=[],
                                        solver_time=0.0, paths=0, feas_queries=0, prims={}, wall_s=0.0, smt2=[]))
    results.sort(key=lambda r: json.dumps(r["cfg"], sort_keys=True))
    return report(prop, mod, tier, seed, results, time.time() - t0)


def report(prop, mod, tier, seed, results, wall):
    known = [k for k in load_known() if k.get("property") == prop]
    records = [dict(r, cfg=res["cfg"]) for res in results for r in res["records"]]
    viol = [dict(v, cfg=res["cfg"]) for res in results for v in res["violations"]]
    errors = [e for res in results for e in res["errors"]]
    inconc = [e for res in results for e in res["inconclusive"]]
    # cross-solver re-check (thorough)
    cross = None
    if tier == "thorough":
        from vf.decide import cross_check
        items = [tuple(x) for res in results for x in res.get("smt2", [])]
        step = max(1, len(items) // 36)
        sample = items[::step][:48]
        cr, bad = cross_check(sample)
        cross = dict(rechecked=len(sample), of=len(items), answers={}, disagreements=[list(b) for b in bad])
        for _, s, a in cr: cross["answers"][f"{s}:{a}"] = cross["answers"].get(f"{s}:{a}", 0) + 1
        for b in bad: errors.append(f"cross-solver disagreement: {b}")
    new_viol = []; known_lines = []
    for v in viol:
        hit = None
        for k in known:
            if k.get("status") == "known" and fnmatch.fnmatchcase(v["key"], k["key"]): hit = k; break
        if hit: known_lines.append((hit, v))
        else: new_viol.append(v)
    structural = sum(1 for r in records if r["verdict"] == "structural")
    decided = [r for r in records if r["verdict"] in ("unsat", "sat")]
    twins_all = [dict(t, cfg=res["cfg"]) for res in results for t in res["twins"]]
    distinct = len({(json.dumps(r["cfg"], sort_keys=True), r["prog"], r["goal"]) for r in decided}) + \
        len({(json.dumps(t["cfg"], sort_keys=True), t["prog"], t["twin"]) for t in twins_all if t["verdict"] == "sat"})
    samples = []
    for r in records:
        if r["verdict"] != "structural" and len(samples) < 6: samples.append(r)
    for r in records:
        if r["verdict"] == "structural" and len(samples) < 8: samples.append(r)
    twins = [t for res in results for t in res["twins"]]
    val = [v for res in results for v in res["validation"]]
    prims = {}
    for res in results:
        for k, v in res.get("prims", {}).items(): prims[k] = prims.get(k, 0) + v
    info = getattr(mod, "INFO", {})
    ev = dict(
        property_id=prop, tier=tier, seed=seed, level="model_checking",
        coverage=dict(
            evaluations=len(records) + len(twins_all), distinct_nontrivial=distinct,
            rule=("one evaluation = one query (goal, interpreter obligation, or reachability twin) over the symbolic execution of the "
                  "jaxpr traced from /repo's current source; non-trivial = decided by the SMT solver (phase A0/A1 unsat, "
                  "phase B sat; a reachability twin counts when the solver refutes it), as opposed to 'structural' (both sides "
                  "are the same hash-consed DAG node); distinct = distinct (configuration, program, goal) triples"),
            samples=samples or [dict(note="no queries")],
            structural=structural, solver_decided=len(decided),
            verdicts={v: sum(1 for r in records if r["verdict"] == v) for v in ("structural", "unsat", "sat", "unknown")},
            configurations=len(results), paths_explored=sum(res.get("paths", 0) for res in results),
            path_feasibility_queries=sum(res.get("feas_queries", 0) for res in results),
            functions_encoded=sorted({f for res in results for f in res["functions"]}),
            bounds=info.get("bounds", {}).get(tier, info.get("bounds", {})),
            outside_bounds=info.get("outside", []),
            stubs=sorted({s for res in results for s in res["stubs"]}),
            reachability_twins=dict(total=len(twins), refuted=sum(1 for t in twins if t["verdict"] == "sat")),
            translator_validation=dict(programs=len(val), points=sum(v.get("points", 0) for v in val),
                                       skipped=sum(1 for v in val if "skipped" in v),
                                       max_rel_err=max([v.get("max_rel_err", 0.0) for v in val] or [0.0])),
            jaxpr_primitives=prims,
            solver_time_s=round(sum(res["solver_time"] for res in results), 3),
            solvers=["z3 5.1.0 (python API)"] + (["/usr/bin/z3 4.8.12", "cvc5 1.0.3"] if tier == "thorough" else []),
            cross_solver=cross,
            inconclusive=inconc, harness_errors=errors,
            known_findings_reported=[k["key"] for k, _ in known_lines],
            exhaustive=False,
        ),
        assumptions=sorted({a for res in results for a in res["assumptions"]} | set(info.get("assumptions", []))),
        wall_s=round(wall, 2), violations=len(new_viol),
    )
    evdir = os.environ.get("VF_EVIDENCE_DIR") or os.path.join(ROOT, "evidence")     # (development runs against a scratch tree write elsewhere)
    os.makedirs(evdir, exist_ok=True)
    with open(os.path.join(evdir, f"{prop}.json"), "w") as f:
        json.dump(ev, f, indent=1, default=str)
    print(f"[{prop} {tier}] configs={len(results)} queries={len(records)} structural={structural} "
          f"solver-decided={len(decided)} twins={len(twins)} unknown={sum(1 for r in records if r['verdict']=='unknown')} "
          f"solver={ev['coverage']['solver_time_s']}s wall={wall:.1f}s")
    seen = set()
    for k, v in known_lines:
        if k["key"] in seen: continue
        seen.add(k["key"])
        print(f"KNOWN-FINDING: property={prop} {k.get('what', k['key'])}")
    for v in new_viol:
        print(f"VIOLATION property={prop} replay={v['replay']}   # {v['key']} cfg={json.dumps(v['cfg'], sort_keys=True)} {v.get('note','')}")
    if new_viol: return 1
    if errors:
        for e in errors[:20]: print("HARNESS-ERROR:", e)
        return 3
    if inconc:
        for e in inconc[:20]: print("INCONCLUSIVE:", e)
        return 2
    return 0


if __name__ == "__main__":
    sys.exit(main(sys.argv[1:]))

"""Hash-consed term DAG (sorts Real / Int / Bool) with local rewrites, z3 emission, EUF abstraction,
cone-of-influence slicing and a concrete evaluator.

All constructors are module-level functions and are always called as ``tm.add(...)`` by the
interpreter, so that the NaN domain (vf.nanmode) can wrap them.
"""
from __future__ import annotations
import math
from fractions import Fraction
import numpy as np
import z3


class T:
    __slots__ = ("op", "args", "sort", "_h", "id")
    _table = {}
    _n = 0

    def __new__(cls, op, args, sort):
        key = (op, args, sort)
        t = T._table.get(key)
        if t is None:
            t = object.__new__(cls)
            t.op, t.args, t.sort = op, args, sort
            t._h = hash(key)
            T._n += 1
            t.id = T._n
            T._table[key] = t
        return t

    def __hash__(self):
        return self._h

    def __eq__(self, o):
        return self is o

    def __add__(a, b): return add(a, lift(b, a.sort))
    def __radd__(a, b): return add(lift(b, a.sort), a)
    def __sub__(a, b): return add(a, neg(lift(b, a.sort)))
    def __rsub__(a, b): return add(lift(b, a.sort), neg(a))
    def __mul__(a, b): return mul(a, lift(b, a.sort))
    def __rmul__(a, b): return mul(lift(b, a.sort), a)
    def __neg__(a): return neg(a)
    def __truediv__(a, b): return div(a, lift(b, a.sort))
    def __rtruediv__(a, b): return div(lift(b, a.sort), a)

    def __repr__(self):
        if self.op == "const": return str(self.args[0])
        if self.op == "var": return self.args[0]
        return f"({self.op} {' '.join(map(repr, self.args))})"

    @property
    def is_const(self): return self.op == "const"
    @property
    def val(self): return self.args[0]


# ---------------------------------------------------------------------------------------------
# concrete mode (replay / translator validation): uninterpreted functions of constants are
# evaluated with a registered interpretation, equality between Real constants is tolerant.
CONCRETE = {"on": False, "tol": 1e-8}
UF_INTERP = {}          # name -> python callable on floats


def const(v, sort):
    if sort == "Real":
        v = Fraction(v)
        if CONCRETE["on"] and v.denominator.bit_length() > 320:
            v = Fraction(float(v))          # concrete (hinted / replay) mode: binary64 precision is enough (tolerant comparisons)
    elif sort == "Int":
        v = int(v)
    elif sort == "Bool":
        v = bool(v)
    return T("const", (v,), sort)


NAN = T("nan", (), "Real")        # concrete (replay) mode only: a NaN/inf value observed in a real output
TRUE = const(True, "Bool")
FALSE = const(False, "Bool")


def var(name, sort): return T("var", (name,), sort)


def lift(x, sort):
    if isinstance(x, T): return x
    if hasattr(x, "val") and hasattr(x, "nan"): return x     # FN of the NaN domain
    return const(x, sort)


def _coerce(a, b):
    if a.sort == "Real" and b.sort == "Int": return a, toreal(b)
    if a.sort == "Int" and b.sort == "Real": return toreal(a), b
    return a, b


def add(a, b):
    if a.op == "nan" or b.op == "nan": return NAN
    if a.sort != b.sort: a, b = _coerce(a, b)
    if a.is_const and b.is_const: return const(a.val + b.val, a.sort)
    if a.is_const and a.val == 0: return b
    if b.is_const and b.val == 0: return a
    if a.id > b.id: a, b = b, a
    return T("add", (a, b), a.sort)


def neg(a):
    if a.op == "nan": return a
    if a.is_const: return const(-a.val, a.sort)
    if a.op == "neg": return a.args[0]
    return T("neg", (a,), a.sort)


def sub(a, b): return add(a, neg(b))


def mul(a, b):
    if a.op == "nan" or b.op == "nan": return NAN
    if a.sort != b.sort: a, b = _coerce(a, b)
    if a.is_const and b.is_const: return const(a.val * b.val, a.sort)
    for x, y in ((a, b), (b, a)):
        if x.is_const:
            if x.val == 0: return x
            if x.val == 1: return y
    if a is b and a.op == "uf:sqrt": return a.args[0]     # sqrt(x)^2 = x (x >= 0 is the side condition of sqrt)
    if a.op == "neg" and b.op == "neg": return mul(a.args[0], b.args[0])
    if a.op == "neg": return neg(mul(a.args[0], b))
    if b.op == "neg": return neg(mul(a, b.args[0]))
    if a.op == "ite" and b.op == "ite" and a.args[0] is b.args[0]:      # guard-aligned lifting
        return ite(a.args[0], mul(a.args[1], b.args[1]), mul(a.args[2], b.args[2]))
    if a.id > b.id: a, b = b, a
    return T("mul", (a, b), a.sort)


def inv(b):
    if b.is_const: return const(Fraction(1) / b.val, "Real")
    return T("uf:inv", (b,), "Real")


def div(a, b):
    if a.sort == "Real":
        if b.is_const and b.val != 0:
            return mul(a, const(Fraction(1) / b.val, "Real"))
        if a.is_const and a.val == 0: return a       # 0/x (x != 0 assumed)
        if a is b: return const(1, "Real")
        return mul(a, inv(b))                         # x != 0 assumed; lemma b*inv(b)=1 added at query time
    # integer division (truncating, as lax.div)
    if a.is_const and b.is_const:
        q = abs(a.val) // abs(b.val)
        return const(q if (a.val >= 0) == (b.val >= 0) else -q, "Int")
    if b.is_const and b.val == 1: return a
    if b.is_const and a.op == "ite" and _leaves_const(a):        # finite-domain integers: push through the ite tree
        return ite(a.args[0], div(a.args[1], b), div(a.args[2], b))
    return T("idiv", (a, b), "Int")


def ipow(a, n):
    if n == 0: return const(1, a.sort)
    if n == 1: return a
    if a.is_const: return const(a.val ** n, a.sort)
    if n < 0: return div(const(1, a.sort), ipow(a, -n))
    r = a
    for _ in range(n - 1): r = mul(r, a)
    return r


def uf(name, a, sort="Real"):
    if a.is_const and CONCRETE["on"] and name in UF_INTERP:
        return const(Fraction(float(UF_INTERP[name](float(a.val)))), sort)
    if name == "sqrt" and a.is_const:
        r = math.isqrt(a.val.numerator * a.val.denominator)
        if r * r == a.val.numerator * a.val.denominator:
            return const(Fraction(r, a.val.denominator), "Real")
    if name == "exp" and a.is_const and a.val == 0: return const(1, "Real")
    if name == "log" and a.is_const and a.val == 1: return const(0, "Real")
    return T("uf:" + name, (a,), sort)


def ufn(name, args, sort):
    return T("ufn:" + name, tuple(args), sort)


def ite(c, a, b):
    if c.is_const: return a if c.val else b
    if a is b: return a
    if a.sort == "Bool":
        if a.is_const and b.is_const:
            return c if a.val else bnot(c)
    return T("ite", (c, a, b), a.sort)


def _leaves_const(t):
    while t.op == "ite":
        if not _leaves_const(t.args[1]): return False
        t = t.args[2]
    return t.is_const


def _cmp0(op, a, b):
    if a.op == "nan" or b.op == "nan": return FALSE          # every ordered comparison / equality with NaN is false
    if a.is_const and b.is_const:
        if CONCRETE["on"] and a.sort == "Real" and op == "eq":
            x, y = float(a.val), float(b.val)
            return const(abs(x - y) <= CONCRETE["tol"] * max(1.0, abs(x), abs(y)), "Bool")
        return const({"lt": a.val < b.val, "le": a.val <= b.val, "eq": a.val == b.val}[op], "Bool")
    if a is b: return const(op != "lt", "Bool")
    if op == "eq" and a.id > b.id: a, b = b, a
    return T(op, (a, b), "Bool")


def cmp(op, a, b):
    """comparison; pushed through ite trees with constant leaves (finite-domain integers)."""
    if a.op == "ite" and b.is_const and _leaves_const(a):
        return bor(band(a.args[0], cmp(op, a.args[1], b)), band(bnot(a.args[0]), cmp(op, a.args[2], b)))
    if b.op == "ite" and a.is_const and _leaves_const(b):
        return bor(band(b.args[0], cmp(op, a, b.args[1])), band(bnot(b.args[0]), cmp(op, a, b.args[2])))
    return _cmp0(op, a, b)


def eq(a, b): return cmp("eq", a, b)
def lt(a, b): return cmp("lt", a, b)
def le(a, b): return cmp("le", a, b)


def bnot(a):
    if a.is_const: return const(not a.val, "Bool")
    if a.op == "not": return a.args[0]
    return T("not", (a,), "Bool")


def band(a, b):
    if a.is_const: return b if a.val else a
    if b.is_const: return a if b.val else b
    if a is b: return a
    if a.id > b.id: a, b = b, a
    return T("and", (a, b), "Bool")


def bor(a, b):
    if a.is_const: return a if a.val else b
    if b.is_const: return b if b.val else a
    if a is b: return a
    if a.id > b.id: a, b = b, a
    return T("or", (a, b), "Bool")


def bxor(a, b): return bor(band(a, bnot(b)), band(bnot(a), b))
def implies(a, b): return bor(bnot(a), b)


def conj(xs):
    r = TRUE
    for x in xs: r = band(r, x)
    return r


def disj(xs):
    r = FALSE
    for x in xs: r = bor(r, x)
    return r


def ssum(xs, sort="Real"):
    r = const(0, sort)
    for x in xs: r = add(r, x)
    return r


def toreal(a):
    if a.is_const: return const(a.val, "Real")
    if a.op == "ite" and _leaves_const(a):
        return ite(a.args[0], toreal(a.args[1]), toreal(a.args[2]))
    return T("toreal", (a,), "Real")


def imod(a, b):
    """lax.rem on integers (sign of dividend)."""
    if a.is_const and b.is_const:
        return const(int(math.fmod(a.val, b.val)), "Int")
    if b.is_const and a.op == "ite" and _leaves_const(a):
        return ite(a.args[0], imod(a.args[1], b), imod(a.args[2], b))
    return T("mod", (a, b), "Int")


# ---------------------------------------------------------------------------------------------
# z3 emission
_ZS = {"Real": z3.RealSort, "Int": z3.IntSort, "Bool": z3.BoolSort}


def to_z3(t, memo, ufs, abstract=False):
    """abstract=True: EUF abstraction -- every maximal arithmetic Real sub-term becomes an opaque
    constant (over-approximates the models: unsat there implies unsat of the real query)."""
    stack = [t]
    while stack:
        x = stack[-1]
        if x in memo:
            stack.pop(); continue
        if abstract and x.sort == "Real" and x.op not in ("ite", "const", "var"):
            memo[x] = z3.Real(f"abs!{x.id}"); stack.pop(); continue
        pend = [a for a in x.args if isinstance(a, T) and a not in memo]
        if pend:
            stack.extend(pend); continue
        stack.pop()
        op = x.op
        if op == "const":
            v = x.val
            r = (z3.RealVal(str(v)) if x.sort == "Real" else z3.IntVal(v) if x.sort == "Int" else z3.BoolVal(v))
        elif op == "var":
            r = {"Real": z3.Real, "Int": z3.Int, "Bool": z3.Bool}[x.sort](x.args[0])
        else:
            a = [memo[y] for y in x.args]
            if op == "add": r = a[0] + a[1]
            elif op == "mul": r = a[0] * a[1]
            elif op == "neg": r = -a[0]
            elif op == "ite": r = z3.If(a[0], a[1], a[2])
            elif op == "lt": r = a[0] < a[1]
            elif op == "le": r = a[0] <= a[1]
            elif op == "eq": r = a[0] == a[1]
            elif op == "not": r = z3.Not(a[0])
            elif op == "and": r = z3.And(a[0], a[1])
            elif op == "or": r = z3.Or(a[0], a[1])
            elif op == "toreal": r = z3.ToReal(a[0])
            elif op == "mod": r = a[0] % a[1]
            elif op == "idiv": r = a[0] / a[1]
            elif op.startswith("uf:"):
                name = op[3:]
                f = ufs.get(name)
                if f is None:
                    f = ufs[name] = z3.Function("uf_" + name, z3.RealSort(), z3.RealSort())      # prefixed: cvc5 reserves sqrt, exp, ... as theory symbols
                r = f(a[0])
            elif op.startswith("ufn:"):
                name = op[4:]
                key = (name, tuple(y.sort for y in x.args), x.sort)
                f = ufs.get(key)
                if f is None:
                    f = ufs[key] = z3.Function("uf_" + name, *[_ZS[y.sort]() for y in x.args], _ZS[x.sort]())
                r = f(*a)
            else:
                raise NotImplementedError(op)
        memo[x] = r
    return memo[t]


# ---------------------------------------------------------------------------------------------
# traversal helpers
def subterms(ts):
    seen = set(); out = []
    stack = list(ts)
    while stack:
        x = stack.pop()
        if x in seen: continue
        seen.add(x); out.append(x)
        stack.extend(a for a in x.args if isinstance(a, T))
    return out


def term_syms(t, cache):
    """set of free symbols (variable names and uf names) of a term (memoised)."""
    if t in cache: return cache[t]
    stack = [t]
    while stack:
        x = stack[-1]
        if x in cache: stack.pop(); continue
        pend = [a for a in x.args if isinstance(a, T) and a not in cache]
        if pend: stack.extend(pend); continue
        stack.pop()
        s = set()
        if x.op == "var": s.add(x.args[0])
        elif x.op.startswith("ufn:"): s.add(x.op)
        for a in x.args:
            if isinstance(a, T): s |= cache[a]
        cache[x] = frozenset(s)
    return cache[t]


def slice_assumptions(assume, goals, cache=None):
    """cone of influence: keep the assumptions that transitively share a *variable* with the goals.
    (unary uninterpreted smooth functions are not counted as shared symbols: an assumption that only
    shares `phi` with the goal constrains nothing the goal depends on unless it shares a variable.)"""
    cache = {} if cache is None else cache
    live = set()
    for g in goals: live |= term_syms(g, cache)
    rest = [(a, term_syms(a, cache)) for a in assume]
    keep = []
    changed = True
    while changed:
        changed = False
        nxt = []
        for a, s in rest:
            if (s & live) or not s:
                keep.append(a); live |= s; changed = True
            else:
                nxt.append((a, s))
        rest = nxt
    return keep, [a for a, _ in rest]


def evaluate(ts, env, ufi=None):
    """concrete float evaluation of terms under env: var name -> python number/bool."""
    ufi = ufi or UF_INTERP
    memo = {}
    stack = list(ts)
    while stack:
        x = stack[-1]
        if x in memo: stack.pop(); continue
        pend = [a for a in x.args if isinstance(a, T) and a not in memo]
        if pend: stack.extend(pend); continue
        stack.pop()
        op = x.op
        if op == "const":
            r = float(x.val) if x.sort == "Real" else x.val
        elif op == "var":
            r = env[x.args[0]]
        else:
            a = [memo[y] for y in x.args]
            if op == "add": r = a[0] + a[1]
            elif op == "mul": r = a[0] * a[1]
            elif op == "neg": r = -a[0]
            elif op == "ite": r = a[1] if a[0] else a[2]
            elif op == "lt": r = a[0] < a[1]
            elif op == "le": r = a[0] <= a[1]
            elif op == "eq": r = a[0] == a[1]
            elif op == "not": r = not a[0]
            elif op == "and": r = a[0] and a[1]
            elif op == "or": r = a[0] or a[1]
            elif op == "toreal": r = float(a[0])
            elif op == "mod": r = int(math.fmod(a[0], a[1]))
            elif op == "idiv": r = int(a[0] / a[1])
            elif op == "uf:inv": r = 1.0 / a[0]
            elif op.startswith("uf:"): r = float(ufi[op[3:]](a[0]))
            elif op.startswith("ufn:"): r = ufi[op[4:]](*a)
            else: raise NotImplementedError(op)
        memo[x] = r
    return [memo[t] for t in ts]


# ---------------------------------------------------------------------------------------------
# arrays of terms
SORT = {"f": "Real", "i": "Int", "u": "Int", "b": "Bool"}


def sort_of(dtype): return SORT[np.dtype(dtype).kind]


def sym_array(name, shape, dtype=np.float64):
    s = sort_of(dtype)
    a = np.empty(shape, dtype=object)
    for idx in np.ndindex(*shape):
        a[idx] = var(name + "".join(f"_{i}" for i in idx), s)
    return a


def conc_array(x):
    x = np.asarray(x)
    if x.dtype == object: return x
    s = sort_of(x.dtype)
    a = np.empty(x.shape, dtype=object)
    if s == "Real":
        for idx in np.ndindex(*x.shape):
            v = float(x[idx])
            a[idx] = const(Fraction(v), s) if math.isfinite(v) else NAN
    elif s == "Bool":
        for idx in np.ndindex(*x.shape): a[idx] = const(bool(x[idx]), s)
    else:
        for idx in np.ndindex(*x.shape): a[idx] = const(int(x[idx]), s)
    return a


def is_const_elem(t):
    return isinstance(t, T) and t.op == "const"


def all_const(a): return all(is_const_elem(t) for t in a.flat)


def to_numpy(a, dtype):
    out = np.empty(a.shape, dtype=dtype)
    for idx in np.ndindex(*a.shape):
        out[idx] = a[idx].val
    return out


def arr_ite(c, a, b):
    out = np.empty(a.shape, dtype=object)
    for ix in np.ndindex(*a.shape):
        out[ix] = ite(c, a[ix], b[ix])
    return out


def scalar(a):
    return a.item() if isinstance(a, np.ndarray) else a


def as_arr(v):
    if isinstance(v, np.ndarray): return v
    a = np.empty((), dtype=object); a[()] = v; return a

"""Deciding a query: prove (phase A0: EUF abstraction, A1: precise) else refute (phase B: reals fixed to
seeded rational hints, uninterpreted functions given their concrete interpretation, discrete symbols
left to the solver).  `unknown` is never a pass and never a violation."""
from __future__ import annotations
import hashlib, re, time, subprocess, tempfile, os, random, shutil
from fractions import Fraction
import z3
from . import terms as tm
from .terms import T

POOL = [Fraction(n, d) for n in range(-17, 18) for d in (2, 3, 5, 7) if n % d != 0 and abs(Fraction(n, d)) != 1]
POOL_POS = sorted({abs(p) for p in POOL})
POOL_UNIT = [Fraction(n, d) for d in (7, 11, 13) for n in range(1, d)]


def _h(*xs):
    return int(hashlib.sha256(repr(xs).encode()).hexdigest()[:12], 16)


class Hints:
    """seeded assignment of small rationals to Real symbols; spec = [(regex, kind)] with kind in
    {'any','pos','unit', ('range', lo, hi), ('fixed', v), ('alt', [kind per round])}"""
    def __init__(self, seed=0, spec=()):
        self.seed = seed; self.spec = [(re.compile(r), k) for r, k in spec]

    def value(self, name, rnd=0):
        kind = "any"
        if name.startswith("U["): kind = "unit"
        for r, k in self.spec:
            if r.search(name): kind = k; break
        if isinstance(kind, tuple) and kind[0] == "alt":        # a different kind per round (round r uses kind[1][r mod len])
            kind = kind[1][rnd % len(kind[1])]
        h = _h(name, self.seed, rnd)
        if kind == "any": return POOL[h % len(POOL)]
        if kind == "pos": return POOL_POS[h % len(POOL_POS)]
        if kind == "unit": return POOL_UNIT[h % len(POOL_UNIT)]
        if kind[0] == "range":
            lo, hi = Fraction(kind[1]), Fraction(kind[2])
            return lo + (hi - lo) * POOL_UNIT[h % len(POOL_UNIT)]
        if kind[0] == "fixed": return Fraction(kind[1])
        raise ValueError(kind)


def side_lemmas(terms):
    """b*inv(b) = 1 for every inv atom; s*s = x and s >= 0 for every sqrt atom."""
    out = []
    for x in tm.subterms(terms):
        if x.op == "uf:inv":
            out.append(tm.cmp("eq", tm.mul(x.args[0], x), tm.const(1, "Real")))
        elif x.op == "uf:sqrt":
            out.append(tm.cmp("eq", T("mul", (x, x), "Real"), x.args[0]))
            out.append(tm.cmp("le", tm.const(0, "Real"), x))
        elif x.op == "uf:exp":
            out.append(tm.cmp("lt", tm.const(0, "Real"), x))
    return out


def subst(ts, env, beps=Fraction(1, 10 ** 6), benv=None):
    """rebuild terms with Real variables replaced by env values, through the folding constructors
    (terms.CONCRETE must be on so that uninterpreted functions of constants are evaluated).
    Real equalities that stay symbolic are relaxed to |a-b| <= beps (float interpretations)."""
    memo = {}
    stack = list(ts)
    while stack:
        x = stack[-1]
        if x in memo: stack.pop(); continue
        pend = [a for a in x.args if isinstance(a, T) and a not in memo]
        if pend: stack.extend(pend); continue
        stack.pop()
        op = x.op
        if op == "const": r = x
        elif op == "var":
            if x.sort == "Real" and x.args[0] in env: r = tm.const(env[x.args[0]], "Real")
            elif benv and x.args[0] in benv: r = tm.const(benv[x.args[0]], x.sort)
            else: r = x
        else:
            a = [memo[y] for y in x.args]
            if op == "add": r = tm.add(*a)
            elif op == "mul": r = tm.mul(*a)
            elif op == "neg": r = tm.neg(*a)
            elif op == "ite": r = tm.ite(*a)
            elif op in ("lt", "le"): r = tm.cmp(op, *a)
            elif op == "eq":
                if a[0].sort == "Real" and not (a[0].is_const and a[1].is_const):
                    d = tm.sub(a[0], a[1]); e = tm.const(beps, "Real")
                    r = tm.band(tm.cmp("le", d, e), tm.cmp("le", tm.neg(d), e))
                else:
                    r = tm.cmp("eq", *a)
            elif op == "not": r = tm.bnot(*a)
            elif op == "and": r = tm.band(*a)
            elif op == "or": r = tm.bor(*a)
            elif op == "toreal": r = tm.toreal(*a)
            elif op == "mod": r = tm.imod(*a)
            elif op == "idiv": r = tm.div(*a)
            elif op == "uf:inv": r = tm.inv(*a) if not a[0].is_const or a[0].val != 0 else T("uf:inv", (a[0],), "Real")
            elif op.startswith("uf:"): r = tm.uf(op[3:], a[0], x.sort)
            elif op.startswith("ufn:"): r = tm.ufn(op[4:], a, x.sort)
            else: raise NotImplementedError(op)
        memo[x] = r
    return [memo[t] for t in ts]


def free_vars(ts):
    return {x.args[0]: x for x in tm.subterms(ts) if x.op == "var"}


def is_nonlinear(ts):
    """does any term multiply two non-constant Real sub-terms (or apply an uninterpreted function)?"""
    for x in tm.subterms(ts):
        if x.op == "mul" and x.sort == "Real" and not x.args[0].is_const and not x.args[1].is_const: return True
    return False


Z3BIN = shutil.which("z3-new") or "/usr/bin/z3"


def hard_check(solver, timeout_s, value_of=()):
    """decide a z3 Solver's assertions in a separate z3 process that is killed at the deadline (z3's in-process
    timeout is not honoured inside some nonlinear-arithmetic routines).  value_of: z3 constants whose model value
    is wanted.  Returns (answer, {sexpr-name: value-string})."""
    text = "(set-option :timeout %d)\n" % int(timeout_s * 1000) + solver.to_smt2()
    if value_of:
        text += "\n(get-value (" + " ".join(v.sexpr() for v in value_of) + "))\n"
    d = "/dev/shm" if os.path.isdir("/dev/shm") else None
    with tempfile.NamedTemporaryFile("w", suffix=".smt2", delete=False, dir=d) as f:
        f.write(text); path = f.name
    try:
        try:
            out = subprocess.run([Z3BIN, path], capture_output=True, text=True, timeout=timeout_s + 5).stdout
        except subprocess.TimeoutExpired:
            return "unknown", {}
    finally:
        os.unlink(path)
    lines = out.strip().splitlines()
    ans = lines[0].strip() if lines else "unknown"
    if ans not in ("sat", "unsat"): return "unknown", {}
    vals = {}
    if ans == "sat" and value_of:
        body = "\n".join(lines[1:])
        for m in re.finditer(r"\((\|[^|]*\||[^\s()]+)\s+(\(-\s*[^()]+\)|[^\s()]+)\)", body):
            vals[m.group(1)] = m.group(2)
    return ans, vals


_CONE_CACHE = {}
_SLOW = {"unknowns": 0}       # process-wide: after 3 undecided queries the long (120/600 s) proof attempt is skipped for the rest of this
                              # worker process, so that a tree on which many goals become hard is reported inconclusive in minutes, not hours


class Decider:
    def __init__(self, assume=(), seed=0, hint_spec=(), t_short=10, t_long=120, rounds=4, lemmas=True):
        self.assume = list(assume)
        self.hints = Hints(seed, hint_spec)
        self.t_short, self.t_long, self.rounds = t_short, t_long, rounds
        self.lemmas = lemmas
        self.symcache = {}
        self.solver_time = 0.0
        self.hard_checks = 0
        self._cone_cache = _CONE_CACHE        # process-wide: term ids are global
        self.vacuous = []
        self.smt2 = []           # (name, smt2 text, verdict) of precise-phase proofs (for cross-solver re-check)
        self.keep_smt2 = False

    # -- helpers
    def _solver(self, timeout_s):
        s = z3.Solver(); s.set("timeout", int(timeout_s * 1000))
        s.set("rlimit", int(timeout_s * 4_000_000))       # deterministic resource cap: z3's wall-clock timeout is not always honoured
        return s

    def _check(self, s, hard=None):
        """hard = timeout in seconds -> decided in a killable subprocess (nonlinear queries)"""
        t0 = time.time()
        if hard is not None:
            r, _ = hard_check(s, hard); self.hard_checks += 1
        else:
            r = str(s.check())
        self.solver_time += time.time() - t0
        return r

    def cone(self, goal, extra=()):
        A = self.assume + list(extra)
        if self.lemmas:
            A = A + side_lemmas([goal] + A)
        keep, dropped = tm.slice_assumptions(A, [goal], self.symcache)
        return keep

    def assumptions_sat(self, extra=(), timeout=20):
        """vacuity guard: the assumptions (with lemmas) must be satisfiable.  Tried precisely first and, if the
        solver cannot tell, at hinted points."""
        A = self.assume + list(extra)
        if not A: return "sat"
        A = A + (side_lemmas(A) if self.lemmas else [])
        s = self._solver(timeout); memo = {}; ufs = {}
        for a in A: s.add(tm.to_z3(a, memo, ufs))
        r = self._check(s, hard=(timeout if is_nonlinear(A) else None))
        if r != "unknown": return r
        rb, _ = self._phase_b(tm.TRUE, A, want_model=False)
        return rb

    def cone_sat(self, A):
        """vacuity guard per proof: the assumptions a proof actually used (its cone) must be satisfiable"""
        key = tuple(sorted(a.id for a in A))
        if key in self._cone_cache: return self._cone_cache[key]
        if not A:
            self._cone_cache[key] = "sat"; return "sat"
        s = self._solver(10); memo = {}; ufs = {}
        for a in A: s.add(tm.to_z3(a, memo, ufs))
        r = self._check(s, hard=(10 if is_nonlinear(A) else None))
        if r == "unknown":
            r, _ = self._phase_b(tm.TRUE, A, want_model=False)
            if r != "sat": r = "unknown"
        self._cone_cache[key] = r
        return r

    def _proved(self, A, phase, t0, name):
        cs = self.cone_sat(A)
        if cs == "unsat":
            self.vacuous.append(name)
            return dict(verdict="unknown", phase=phase + "/vacuous", ms=1000 * (time.time() - t0))
        return dict(verdict="unsat", phase=phase, ms=1000 * (time.time() - t0))

    # -- main entry
    def refute(self, goal, extra=(), name=""):
        """reachability twins: only a counterexample is of interest (A0 is kept: proving a twin is a harness error)"""
        t0 = time.time()
        if goal.is_const and goal.val: return dict(verdict="structural", phase="-", ms=0.0)
        A = self.cone(goal, extra)
        if not goal.is_const:
            s = self._solver(self.t_short); memo = {}; ufs = {}
            for a in A: s.add(tm.to_z3(a, memo, ufs, abstract=True))
            s.add(tm.to_z3(tm.bnot(goal), memo, ufs, abstract=True))
            if self._check(s) == "unsat":
                return dict(verdict="unsat", phase="A0", ms=1000 * (time.time() - t0))
        rb, model = self._phase_b(goal, A)
        if rb == "sat": return dict(verdict="sat", phase="B", ms=1000 * (time.time() - t0), model=model)
        return dict(verdict="unknown", phase="B", ms=1000 * (time.time() - t0))

    def prove(self, goal, extra=(), name=""):
        """returns dict(verdict in structural|unsat|sat|unknown, phase, ms, model?)"""
        t0 = time.time()
        if goal.is_const:
            if goal.val: return dict(verdict="structural", phase="-", ms=0.0)
            # constant false goal: violated under any model of the assumptions
        A = self.cone(goal, extra)
        ng = tm.bnot(goal)
        if goal.is_const and not goal.val:
            # a goal that folded to False along a path: the counterexample must be a model of the WHOLE path condition (the cone of a
            # constant is empty), so that its replay takes the same path; if no such model is found at the hints the empty cone is used
            full = self.assume + list(extra)
            if full:
                rb, model = self._phase_b(goal, full, rounds=2)
                if rb == "sat":
                    return dict(verdict="sat", phase="B", ms=1000 * (time.time() - t0), model=model)
        if not goal.is_const:
            # A0: EUF abstraction (over-approximates the models: unsat here is unsat of the real query)
            s = self._solver(self.t_short); memo = {}; ufs = {}
            for a in A: s.add(tm.to_z3(a, memo, ufs, abstract=True))
            s.add(tm.to_z3(ng, memo, ufs, abstract=True))
            if self._check(s) == "unsat":
                if self.keep_smt2: self.smt2.append((name + " [A0 abstraction]", s.to_smt2(), "unsat"))
                return self._proved(A, "A0", t0, name)
        # B (one cheap round first: a satisfiable query is usually refuted here in milliseconds)
        rb, model = self._phase_b(goal, A, rounds=1)
        if rb == "sat":
            return dict(verdict="sat", phase="B", ms=1000 * (time.time() - t0), model=model)
        if not goal.is_const:
            r1 = self._a1(A, ng, self.t_short, name)
            if r1 == "unsat":
                return self._proved(A, "A1", t0, name)
        rb, model = self._phase_b(goal, A, first_round=1, rounds=(1 if _SLOW["unknowns"] >= 3 else None))
        if rb == "sat":
            return dict(verdict="sat", phase="B", ms=1000 * (time.time() - t0), model=model)
        if not goal.is_const and self.t_long > self.t_short and _SLOW["unknowns"] < 3:
            r1 = self._a1(A, ng, self.t_long, name)
            if r1 == "unsat":
                return self._proved(A, "A1-long", t0, name)
        _SLOW["unknowns"] += 1
        return dict(verdict="unknown", phase="A1+B", ms=1000 * (time.time() - t0))

    def _a1(self, A, ng, timeout, name):
        s = self._solver(timeout); memo = {}; ufs = {}
        for a in A: s.add(tm.to_z3(a, memo, ufs))
        s.add(tm.to_z3(ng, memo, ufs))
        r = self._check(s, hard=(timeout if is_nonlinear(list(A) + [ng]) else None))
        if self.keep_smt2 and r == "unsat":
            self.smt2.append((name, s.to_smt2(), r))
        return r

    def _phase_b(self, goal, A, want_model=True, rounds=None, first_round=0):
        """refutation at hinted points.  Stage 1: reals fixed, discrete symbols free (5 s).  Stage 2 (if stage 1 is
        not conclusive): the drawn permutations (one-hot Booleans P<tag>_i_k) are fixed to seeded random permutations as
        well, so that the query folds to constants; other discrete symbols stay free."""
        allterms = [goal] + list(A)
        fv = free_vars(allterms)
        reals = sorted(n for n, v in fv.items() if v.sort == "Real")
        perm_groups = {}
        for n in fv:
            m = re.match(r"^P(.+)_(\d+)_(\d+)$", n)
            if m and fv[n].sort == "Bool": perm_groups.setdefault(m.group(1), set()).add(int(m.group(2)))
        last = "unknown"
        old = tm.CONCRETE["on"]
        for rnd in range(first_round, first_round + (rounds or self.rounds)):
            env = {n: self.hints.value(n, rnd) for n in reals}
            nl0 = is_nonlinear(allterms)
            for stage in ((2, 1) if (nl0 and perm_groups) else (1, 2)):
                benv = {}
                if stage == 2:
                    if not perm_groups: continue
                    for tag, rows in perm_groups.items():
                        nn = max(rows) + 1
                        pi = list(range(nn)); random.Random(_h(tag, self.hints.seed, rnd)).shuffle(pi)
                        for i in range(nn):
                            for k in range(nn): benv[f"P{tag}_{i}_{k}"] = (pi[i] == k)
                tm.CONCRETE["on"] = True
                try:
                    ts = subst(allterms, env, benv=benv)
                except (ZeroDivisionError, ValueError, OverflowError):
                    break
                finally:
                    tm.CONCRETE["on"] = old
                g, As = ts[0], ts[1:]
                if any(a.is_const and not a.val for a in As):
                    if stage == 1: break                  # real hints violate an assumption
                    continue
                s = self._solver(5 if stage == 1 else 20); memo = {}; ufs = {}
                for a in As:
                    if not a.is_const: s.add(tm.to_z3(a, memo, ufs))
                s.add(tm.to_z3(tm.bnot(g), memo, ufs))
                nl = is_nonlinear([x for x in As if not x.is_const] + [g])
                disc = {n: v for n, v in fv.items() if v.sort != "Real" and n not in benv}
                if nl:
                    t0 = time.time()
                    zc = {n: tm.to_z3(v, memo, ufs) for n, v in disc.items()}
                    r, vals = hard_check(s, 5 if stage == 1 else 20, list(zc.values())); self.hard_checks += 1
                    self.solver_time += time.time() - t0
                else:
                    r = self._check(s)
                if r == "sat":
                    if not want_model: return "sat", None
                    model = {n: env[n] for n in reals}
                    model.update(benv)
                    if nl:
                        for n, v in disc.items():
                            raw = vals.get(zc[n].sexpr())
                            if raw is None: raw = "false" if v.sort == "Bool" else "0"
                            model[n] = (raw == "true") if v.sort == "Bool" else int(raw.replace("(", "").replace(")", "").replace(" ", ""))
                    else:
                        m = s.model()
                        for n, v in disc.items():
                            zv = m.eval(tm.to_z3(v, memo, ufs), model_completion=True)
                            model[n] = z3.is_true(zv) if v.sort == "Bool" else zv.as_long()
                    return "sat", model
                if r == "unsat":
                    if stage == 1: break                  # no counterexample at this real point for any discrete choice
                    continue
                last = r
        return ("unsat-at-hints" if last == "unknown" else last), None


def cross_check(smt2_items, timeout=20, workers=12):
    """re-decide precise-phase proofs with /usr/bin/z3 (4.8.12) and cvc5 binaries (in parallel, each killed at the
    deadline); returns [(name, solver, answer)] and the list of disagreements (answer sat, or an (error line).  A timeout
    of the second solver is recorded as 'timeout' and is not a disagreement."""
    from concurrent.futures import ThreadPoolExecutor
    d = "/dev/shm" if os.path.isdir("/dev/shm") else None

    def one(item):
        name, text, verdict = item
        with tempfile.NamedTemporaryFile("w", suffix=".smt2", delete=False, dir=d) as f:
            f.write("(set-logic ALL)\n" + text + "\n")
            path = f.name
        out_ = []
        try:
            for solver, cmd in (("z3-4.8.12", ["/usr/bin/z3", f"-T:{timeout}", path]),
                                ("cvc5-1.0", ["cvc5", f"--tlimit={timeout * 1000}", path])):
                try:
                    out = subprocess.run(cmd, capture_output=True, text=True, timeout=timeout + 5).stdout
                except subprocess.TimeoutExpired:
                    out = "timeout"
                ans = "error" if "(error" in out else (out.strip().splitlines() or ["?"])[0]
                out_.append((name, solver, ans))
        finally:
            os.unlink(path)
        return out_

    res = []
    with ThreadPoolExecutor(max_workers=workers) as ex:
        for r in ex.map(one, smt2_items): res.extend(r)
    bad = [x for x in res if x[2] in ("sat", "error")]
    return res, bad

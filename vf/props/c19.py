"""C19 -- validation is called on schedule; early stopping and best parameters follow it."""
import numpy as np
import jax, jax.numpy as jnp, equinox as eqx, optax
from .. import terms as tm
from ..terms import const, eq, lt, le, bnot, band, bor, implies, ite
from ..interp import Interp, explore
from ..harness import _is_objarr
from ..nets import mk_pinn

INFO = dict(
    bounds=dict(quick="(a) one ValidationLoss call from symbolic (counter, best loss, patience, early_stopping) and sequences of 4 calls, with and without its own parameter/observation generators; (b) solve with a scripted validation module: n_iter = 4, call_every symbolic (>= 1, unbounded), symbolic stop/improve scripts",
                thorough="(a) sequences of 5 calls; (b) n_iter = 6"),
    outside=["more iterations / calls", "floating-point rounding", "an initial best loss of +inf is modelled by a symbolic initial value assumed larger than every loss of the run"],
    assumptions=["floats are mathematical reals", "jax.random contracts", "call_every >= 1"],
)


def configs(tier):
    out = []
    for aux in ("none", "param", "param+obs"):
        out.append(dict(part="vloss_step", aux=aux, x64=True))
        out.append(dict(part="vloss_seq", aux=aux, ncalls=(4 if tier == "quick" else 5), x64=True))
    out.append(dict(part="vloss_seq", aux="none", ncalls=4, ties=True, x64=True))       # repeated parameters on a one-point validation set: exact ties
    out.append(dict(part="solve", n_iter=(4 if tier == "quick" else 6), x64=True))
    # the module gets the post-update parameters also when they are NaN (NaN domain and fault injection of C18: gradient of theta)
    out.append(dict(part="solve_nan", n_iter=(3 if tier == "quick" else 4), x64=True))
    return out


def build_loss(aux_theta=False):
    import jinns
    from jinns.parameters import Params
    from jinns.parameters._derivative_keys import DerivativeKeysODE
    from jinns.loss import LossODE, ODE
    sc = lambda v: jnp.ravel(v)[0]
    ot = lambda i, o, p: o * p.eq_params["theta"]
    u = mk_pinn(1, 1, "ODE", deg=1, H=1, ot=ot)
    class Eq(ODE):
        def equation(self, t, u, p): return jax.grad(lambda t: u(t, p)[0])(t) + sc(p.eq_params["kappa"]) * u(t, p)
    params = Params(nn_params=u.init_params(), eq_params={"theta": jnp.array(0.7), "kappa": jnp.array(1.3)})
    both = Params(nn_params=True, eq_params={"theta": True, "kappa": False})
    dk = DerivativeKeysODE(dyn_loss=both, observations=both, initial_condition=both)
    loss = LossODE(u=u, dynamic_loss=Eq(Tmax=1), initial_condition=(jnp.array(0.25), jnp.array([0.5])), derivative_keys=dk, params=params)
    return u, params, loss


def tree_eq(a, b):
    la = [l for l in jax.tree_util.tree_leaves(a, is_leaf=_is_objarr) if _is_objarr(l)]
    lb = [l for l in jax.tree_util.tree_leaves(b, is_leaf=_is_objarr) if _is_objarr(l)]
    if len(la) != len(lb) or any(x.shape != y.shape for x, y in zip(la, lb)): return tm.FALSE
    cs = []
    for x, y in zip(la, lb):
        for p, q in zip(x.flat, y.flat):
            if p.sort != q.sort:
                p = tm.toreal(p) if p.sort == "Int" else p; q = tm.toreal(q) if q.sort == "Int" else q
            cs.append(eq(p, q))
    return tm.conj(cs)


def run(cfg, R):
    part = cfg["part"]
    if part == "solve": return run_solve(cfg, R)
    if part == "solve_nan":
        from . import c18
        return c18.run(dict(fault="grad_theta", opt="sgd", n_iter=cfg["n_iter"], n=3, b=2, val=True, x64=True), R)
    import jinns
    from jinns.validation._validation import ValidationLoss
    from jinns.data import append_param_batch, append_obs_batch
    import jinns.data._DataGenerators as DG
    aux = cfg["aux"]
    u, params, loss = build_loss()
    key = jax.random.PRNGKey(17)
    k1, k2, k3 = jax.random.split(key, 3)
    n, b = (1, 1) if cfg.get("ties") else (3, 2)
    vdata = DG.DataGeneratorODE(k1, n, 0.0, 1.0, b)
    pdata = DG.DataGeneratorParameter(k2, n + 1, b, param_ranges={"kappa": (1.0, 2.0)}) if "param" in aux else None
    odata = DG.DataGeneratorObservations(k3, b, jnp.arange(1, n + 3, dtype=jnp.float64).reshape(n + 2, 1) * 0.1, jnp.arange(1, n + 3, dtype=jnp.float64).reshape(n + 2, 1) * 0.3) if "obs" in aux else None
    val = ValidationLoss(loss=loss, validation_data=vdata, validation_param_data=pdata, validation_obs_data=odata, call_every=1,
                         early_stopping=jnp.array(True), patience=jnp.array(2), best_val_loss=jnp.array(5.0), counter=jnp.array(1.0))
    R.note(functions=["jinns.validation._validation.ValidationLoss.__call__"], stubs_=["jax.random contracts"])
    conc = lambda nm, l: nm.endswith("indices")

    def ref_draw(val):
        vd, vb = val.validation_data.get_batch()
        pd_ = od_ = None
        if val.validation_param_data is not None:
            pd_, pb = val.validation_param_data.get_batch(); vb = append_param_batch(vb, pb)
        if val.validation_obs_data is not None:
            od_, ob = val.validation_obs_data.get_batch(); vb = append_obs_batch(vb, ob)
        return vd, pd_, od_, vb

    if part == "vloss_step":
        def f(val, params):
            new, stop, crit, improved = val(params)
            vd, pd_, od_, vb = ref_draw(val)
            ref = val.loss(params, vb)[0]
            return new, stop, crit, improved, ref, (vd, pd_, od_)
        name = f"vloss_step/{aux}"
        tr = R.trace(name, f, (val, params), key="vloss:raises", use_stubs=True, conc=conc, missing="example")
        if tr is None: return
        def goals(A, O):
            v, p = A
            new, stop, crit, improved, ref, gens = O
            c, best, pat, es = v.counter[()], v.best_val_loss[()], v.patience[()], v.early_stopping[()]
            imp = lt(ref[()], best)
            G = [("criterion == the loss on the module's own next batches", eq(crit[()], ref[()])),
                 ("improvement flagged exactly on a strict new minimum", eq(improved[()], imp) if improved[()].sort == "Bool" else tm.FALSE),
                 ("counter' == 0 on improvement, counter + 1 otherwise", eq(new.counter[()], ite(imp, const(0, "Real"), tm.add(c, const(1, "Real"))))),
                 ("best' == min(best, loss)", eq(new.best_val_loss[()], ite(imp, ref[()], best))),
                 ("stop requested iff early stopping is enabled and `patience` consecutive non-improving invocations precede this one",
                  eq(stop[()], band(es, eq(c, tm.toreal(pat))))),
                 ("the collocation generator of the module is advanced", tree_eq(new.validation_data, gens[0]))]
            if gens[1] is not None: G.append(("the parameter generator of the module is advanced", tree_eq(new.validation_param_data, gens[1])))
            if gens[2] is not None: G.append(("the observation generator of the module is advanced", tree_eq(new.validation_obs_data, gens[2])))
            G.append(("never stops when early stopping is disabled", implies(bnot(es), bnot(stop[()]))))
            return G
        def twins(A, O):
            v, p = A
            new, stop, crit, improved, ref, gens = O
            return [("stop is never requested", bnot(stop[()])), ("counter always increases", eq(new.counter[()], tm.add(v.counter[()], const(1, "Real"))))]
        R.check(name, tr, goals, twin_fn=twins, validate=False, hint_spec=[(r"counter", ("fixed", 2)), (r"patience", ("fixed", 2)), (r"best_val_loss", ("fixed", 100000))],
                key_fn=lambda p_, g: "vloss_step:" + g[:50])
        return

    # ---- sequence of calls with a parameter trajectory p_0..p_{m-1} (arbitrary symbolic parameters per call)
    m = cfg["ncalls"]
    ties = cfg.get("ties", False)
    def f(val, plist):
        if ties:            # the parameters of call k+1 repeat those of call k for odd k: the validation loss ties exactly with the running best
            plist = [plist[0], plist[1], plist[1], plist[0]][:m]
        v = val; outs = []; refs = []
        vr = val
        for k in range(m):
            v, stop, crit, improved = v(plist[k])
            outs.append((stop, crit, improved))
            vd, pd_, od_, vb = ref_draw(vr)
            refs.append(vr.loss(plist[k], vb)[0])
            vr = eqx.tree_at(lambda t: t.validation_data, vr, vd)
            if pd_ is not None: vr = eqx.tree_at(lambda t: t.validation_param_data, vr, pd_)
            if od_ is not None: vr = eqx.tree_at(lambda t: t.validation_obs_data, vr, od_)
        return outs, refs
    plist = [jax.tree_util.tree_map(lambda x: x * (1.0 + 0.1 * k), params) for k in range(m)]
    val0 = eqx.tree_at(lambda t: t.counter, val, jnp.array(0.0))
    name = f"vloss_seq/{aux}/m{m}" + ("/ties" if ties else "")
    tr = R.trace(name, f, (val0, plist), key="vloss:raises", use_stubs=True, missing="example",
                 conc=lambda nm, l: nm.endswith("indices") or nm.endswith("counter"))
    if tr is None: return
    def goals(A, O):
        v, pl = A
        outs, refs = O
        best, pat, es = v.best_val_loss[()], v.patience[()], v.early_stopping[()]
        G = []
        cnt = const(0, "Real")
        for k in range(m):
            stop, crit, improved = outs[k]
            r = refs[k][()]
            imp = lt(r, best)
            G.append((f"call {k}: criterion == loss on the module's own batches (generators advanced between calls)", eq(crit[()], r)))
            G.append((f"call {k}: improvement <=> strict new minimum over all earlier calls", eq(improved[()], imp)))
            G.append((f"call {k}: stop <=> early stopping enabled and exactly `patience` consecutive non-improving calls precede", eq(stop[()], band(es, eq(cnt, tm.toreal(pat))))))
            cnt = ite(imp, const(0, "Real"), tm.add(cnt, const(1, "Real")))
            best = ite(imp, r, best)
        return G
    def assume(A, O):
        v, pl = A
        return [le(const(0, "Int"), v.patience[()])]
    R.check(name, tr, goals, extra_assume_fn=assume, validate=False, hint_spec=[(r"best_val_loss", ("fixed", 100000)), (r"patience", ("fixed", 1))],
            key_fn=lambda p_, g: "vloss_seq:" + g.split(":", 1)[-1].strip()[:50])


class Scripted(eqx.Module):
    """validation module driven by a script: the k-th invocation returns (stops[k], criterion(params), improves[k])"""
    call_every: jax.Array
    stops: jax.Array
    improves: jax.Array
    k: jax.Array

    def __call__(self, params):
        new = eqx.tree_at(lambda t: t.k, self, self.k + 1)
        return new, self.stops[self.k], 2.0 * params.eq_params["theta"] + 0.5, self.improves[self.k]


def run_solve(cfg, R):
    import jinns
    import jinns.data._DataGenerators as DG
    from jinns.validation._validation import AbstractValidationModule
    n_iter = cfg["n_iter"]
    u, params, loss = build_loss()
    key = jax.random.PRNGKey(19)
    data = DG.DataGeneratorODE(key, 3, 0.0, 1.0, 2)
    lr = jnp.array(0.125)
    L = n_iter + 1
    # Scripted must be an AbstractValidationModule for solve's type expectations (duck typing is enough at run time)
    val = Scripted(call_every=jnp.array(2), stops=jnp.zeros((L,), dtype=bool), improves=jnp.zeros((L,), dtype=bool), k=jnp.array(0))
    R.note(functions=["jinns.solve (validation branch, early stopping, best_val_params)", "_get_break_fun"], stubs_=["jax.random contracts"])

    def f(lr, params, data, val):
        opt = optax.sgd(lr)
        out = jinns.solve(n_iter, params, data, loss, opt, validation=val, verbose=False)
        refs = []
        p_ = params; st = opt.init(params); d_ = data
        d_, _b0 = d_.get_batch()
        for i in range(n_iter):
            d_, bt = d_.get_batch()
            (v_, terms), g = jax.value_and_grad(loss, has_aux=True)(p_, bt)
            upd, st = opt.update(g, st, p_); p_ = optax.apply_updates(p_, upd)
            refs.append((p_, v_))
        return out, refs

    name = f"solve/scripted/it{n_iter}"
    tr = R.trace(name, f, (lr, params, data, val), key="solve:raises", use_stubs=True, missing="example",
                 conc=lambda nm, l: nm == "a_3_k")
    if tr is None: return
    ce = tr.A[3].call_every[()]
    base = [le(const(1, "Int"), ce)]

    def fork_cond(e, pred):
        from ..terms import subterms
        return any(x.op == "var" and x.args[0] == ce.args[0] for x in subterms([pred]))

    def run_plan(plan):
        it = Interp(plan=plan, fork_cond=fork_cond, fork_while=lambda e: True, while_bound=n_iter + 2)
        return tr.run(interp=it), it

    def feasible(path):
        import z3
        s = z3.Solver(); s.set("timeout", 5000); memo = {}; ufs = {}
        for a in base + list(path): s.add(tm.to_z3(a, memo, ufs, abstract=True))
        return str(s.check()) != "unsat"

    def goals(A, O):
        lr_, p0, d0, v = A
        out, refs = O
        ce_ = v.call_every[()]; stops = list(v.stops); imps = list(v.improves)
        crit = out[7]; bestp = out[8]; hist = out[1]; finalp = out[0]
        G = []
        def pick(arr, idx):
            r = arr[-1]
            for k in range(len(arr) - 2, -1, -1): r = ite(eq(idx, const(k, "Int")), arr[k], r)
            return r
        called = []; kcount = const(0, "Int"); alive = tm.TRUE
        exp_prev = const(0, "Real"); exp_best = p0
        stopped_before = tm.FALSE
        final_expected = None
        for i in range(n_iter):
            c_i = tm.TRUE if i == 0 else tm.disj([eq(ce_, const(dv, "Int")) for dv in range(1, i + 1) if i % dv == 0])
            pi, vi = refs[i]
            g_i = tm.add(tm.mul(const(2, "Real"), pi.eq_params["theta"][()]), const(0.5, "Real"))
            exp_c = ite(c_i, g_i, exp_prev)
            running = bnot(stopped_before)            # iteration i is executed
            G.append((f"iteration {i}: criterion == g(post-update parameters) when i is divisible by call_every, carried forward otherwise; untouched (0) after the stop",
                      eq(crit[i], ite(running, exp_c, const(0, "Real")))))
            G.append((f"iteration {i}: loss history == reference while training runs, untouched (0) after the stop", eq(hist[i], ite(running, vi[()], const(0, "Real")))))
            stop_i = band(running, band(c_i, pick(stops, kcount)))
            imp_i = band(running, band(c_i, pick(imps, kcount)))
            # best parameters: those of the last invocation that flagged an improvement
            exp_best = jax.tree_util.tree_map(lambda new_, old_: np.vectorize(lambda a_, b_: ite(imp_i, a_, b_), otypes=[object])(new_, old_) if _is_objarr(new_) else new_, pi, exp_best, is_leaf=_is_objarr)
            # final parameters: post-update parameters of the last executed iteration
            final_expected = pi if final_expected is None else jax.tree_util.tree_map(
                lambda new_, old_: np.vectorize(lambda a_, b_: ite(running, a_, b_), otypes=[object])(new_, old_) if _is_objarr(new_) else new_, pi, final_expected, is_leaf=_is_objarr)
            exp_prev = ite(running, exp_c, exp_prev)
            kcount = tm.add(kcount, ite(band(running, c_i), const(1, "Int"), const(0, "Int")))
            stopped_before = bor(stopped_before, stop_i)
        G.append(("best_val_params == parameters of the last invocation that flagged an improvement (initial ones if none)", tree_eq(bestp, exp_best)))
        G.append(("training stops right after the first invocation that requests it: final parameters", tree_eq(finalp, final_expected)))
        return G

    if R.replay is not None:
        R.check(R.replay.get("prog"), tr, goals, validate=False,
                hint_spec=[(r"^a_0$", ("range", 0.05, 0.3)), (r"^a_1_", ("range", -0.6, 0.6)), (r".", ("range", -1, 1))]); return
    paths, nfeas = explore(run_plan, feasible, max_paths=800)
    R.paths += len(paths); R.feas_queries += nfeas
    for k, (plan, path, O, it) in enumerate(paths):
        tr.last_interp = it
        R.check(f"{name}/path{k}", tr, goals, assume=base + list(path), O=O, validate=False,
                hint_spec=[(r"^a_0$", ("range", 0.05, 0.3)), (r"^a_1_", ("range", -0.6, 0.6)), (r".", ("range", -1, 1))],
                key_fn=lambda p_, g: "solve:" + g.split(":", 1)[-1].strip()[:50])
    R.twins.append(dict(prog=name, twin="several feasible schedules/exits exist", verdict="sat" if len(paths) > 3 else "unsat", ms=0.0))

"""C01 -- differential operators return the mathematical operator's value (spatial derivatives only)."""
import numpy as np
import jax, jax.numpy as jnp
from .. import terms as tm
from ..terms import const, add, mul, eq
from ..harness import Traced
from ..nets import mk_pinn, D, unit

INFO = dict(
    bounds=dict(
        quick="d in 1..4 (advection d=2), Poly(deg 3)+Ridge(H=1) fields, 1..d outputs, with/without t",
        thorough="d in 1..4 (advection d=2), Poly(deg 3)+Ridge(H<=3), outputs 1..3 (vector Laplacian with u_vec_ndim != d), with/without t"),
    outside=["fields that are not polynomial(deg<=3) + sum_h a_h*phi(w_h.z+b_h) with phi an arbitrary smooth function",
             "floating-point rounding (claims are over the reals)"],
    assumptions=["floats are mathematical reals", "phi and its derivatives are uninterpreted functions linked only by JAX's JVP rule d phi_k = phi_{k+1}"],
)

OPS = ("laplacian", "div", "veclap", "veclap_default", "advection")


def configs(tier):
    out = []
    dims = (1, 2, 3, 4)
    Hs = (1,) if tier == "quick" else (1, 3)
    for d in dims:
        for with_t in (False, True):
            for H in Hs:
                out.append(dict(op="laplacian", d=d, t=with_t, H=H, n_out=1))
                out.append(dict(op="div", d=d, t=with_t, H=H, n_out=d))
                out.append(dict(op="veclap_default", d=d, t=with_t, H=H, n_out=d))
                nouts = {1: (2,), 2: (1, 3), 3: (2,), 4: (1,)}[d] if tier == "thorough" else {1: (2,), 2: (3,), 3: (2,), 4: (1,)}[d]
                for n_out in nouts:
                    out.append(dict(op="veclap", d=d, t=with_t, H=H, n_out=n_out))
                if d == 2:
                    out.append(dict(op="advection", d=2, t=with_t, H=H, n_out=2))
    return out


def run(cfg, R):
    import jinns
    from jinns.loss import _laplacian_rev, _div_rev, _vectorial_laplacian
    from jinns.loss._operators import _u_dot_nabla_times_u_rev
    from jinns.parameters import Params
    op, d, with_t, H, n_out = cfg["op"], cfg["d"], cfg["t"], cfg["H"], cfg["n_out"]
    eq_type = "nonstatio_PDE" if with_t else "statio_PDE"
    d_in = d + (1 if with_t else 0)
    u = mk_pinn(d_in, n_out, eq_type, deg=3, H=H)
    params = Params(nn_params=u.init_params(), eq_params={"unrelated": jnp.array(1.5)})
    t = jnp.array([0.3]) if with_t else None
    x = jnp.arange(1, d + 1) * 0.25

    def f(params, t, x):
        if op == "laplacian": return _laplacian_rev(t, x, u, params)
        if op == "div": return _div_rev(t, x, u, params)
        if op == "veclap": return _vectorial_laplacian(t, x, u, params, u_vec_ndim=n_out)
        if op == "veclap_default": return _vectorial_laplacian(t, x, u, params)
        if op == "advection": return _u_dot_nabla_times_u_rev(t, x, u, params)
        raise ValueError(op)

    R.note(functions=[{"laplacian": "jinns.loss._laplacian_rev", "div": "jinns.loss._div_rev",
                       "veclap": "jinns.loss._vectorial_laplacian[PINN]", "veclap_default": "jinns.loss._vectorial_laplacian[PINN, default u_vec_ndim]",
                       "advection": "jinns.loss._operators._u_dot_nabla_times_u_rev"}[op], "jinns.utils._pinn.PINN.__call__/eval_nn"])
    tr = Traced(f, (params, t, x), prefix="a")
    off = 1 if with_t else 0

    def z_of(A):
        p, t_, x_ = A
        return ([t_[0]] if with_t else []) + list(x_), p.nn_params

    def oracle(A, time_too=False, flip=False):
        z, net = z_of(A)
        axes = range(0 if time_too else off, d_in)
        if op == "laplacian":
            return [tm.ssum([D(net, z, unit(d_in, j, 2), 0) for j in axes])]
        if op == "div":
            r = tm.ssum([D(net, z, unit(d_in, off + j, 1), j) for j in range(d)])
            if time_too: r = add(r, D(net, z, unit(d_in, 0, 1), 0))
            return [r]
        if op in ("veclap", "veclap_default"):
            return [tm.ssum([D(net, z, unit(d_in, j, 2), c) for j in axes]) for c in range(n_out)]
        if op == "advection":
            out = []
            for c in range(2):
                r = tm.ssum([mul(D(net, z, None, j if not flip else c), D(net, z, unit(d_in, off + j, 1), c)) for j in range(2)])
                out.append(r)
            return out

    def goals(A, O):
        o = list(np.asarray(O, dtype=object).reshape(-1))
        return [(f"{op}[{c}] == closed form", eq(o[c], w)) for c, w in enumerate(oracle(A))]

    def twins(A, O):
        o = list(np.asarray(O, dtype=object).reshape(-1))
        tw = []
        if with_t and op != "advection":
            tw += [(f"{op}[{c}] == operator that also differentiates in t", eq(o[c], w)) for c, w in enumerate(oracle(A, time_too=True))][:1]
        if op == "advection":
            tw += [(f"advection[{c}] == (u_c . grad) u_c", eq(o[c], w)) for c, w in enumerate(oracle(A, flip=True))][:1]
        tw += [(f"{op}[0] == -closed form", eq(o[0], tm.neg(oracle(A)[0])))]
        return tw

    R.check(f"{op}/d{d}/t{int(with_t)}/H{H}/out{n_out}", tr, goals, twin_fn=twins,
            key_fn=lambda prog, g: f"{op}:d={d}:t={int(with_t)}")

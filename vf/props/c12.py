"""C12 -- per-sample equation parameters and heterogeneous parameters are aligned."""
import itertools
import numpy as np
import jax, jax.numpy as jnp, equinox as eqx
from fractions import Fraction
from .. import terms as tm
from ..terms import const, add, mul, neg, sub, eq, uf
from ..nets import mk_pinn, D, unit, sq, mean
from ..stubs import psi

INFO = dict(
    bounds=dict(quick="3 equation parameters (theta read by the network, kappa and mu by the equation), every subset of batched keys, batch size 2, ODE / stationary / non-stationary single losses with dynamic, boundary, initial-condition and observation terms; heterogeneity maps on theta and kappa; ODE and PDE systems with one batched key",
                thorough="same with batch size 3"),
    outside=["more than 3 equation parameters", "SPINN", "floating-point rounding"],
    assumptions=["floats are mathematical reals", "equations are psi(linear form) of u, its input point, kappa and mu; the network output is multiplied by theta (so that the row a sample is evaluated with is visible in the network as well as in the equation)"],
)
KEYS = ("theta", "kappa", "mu")


def configs(tier):
    B = 2 if tier == "quick" else 3
    out = []
    for kind in ("ode", "statio", "nonstatio"):
        for r in range(0, 4):
            for sub in itertools.combinations(KEYS, r):
                out.append(dict(part="batch", kind=kind, batched=list(sub), B=B))
        out.append(dict(part="batch", kind=kind, batched=["kappa", "mu"], B=B, flat=True))      # per-sample values given as 1-D arrays of shape (B,)
        out.append(dict(part="hetero", kind=kind, B=B))
        if kind != "statio":      # the ignored placeholder of a heterogeneous parameter is an INTEGER: the user function's (real) value is what the equation sees
            out.append(dict(part="hetero", kind=kind, B=B, intph=True))
        # one loss object evaluated on batches that batch DIFFERENT subsets of the keys, one after the other, in one process
        out.append(dict(part="sequence", kind=kind, B=B))
    # the normalisation term of a time-dependent loss: time stamp i is integrated with row i of the batched parameters
    for sub in (["theta"], ["theta", "kappa"]):
        out.append(dict(part="norm", kind="nonstatio", batched=sub, B=B))
    for kind in ("ode", "statio", "nonstatio"):
        for sub in (["kappa"], ["theta", "kappa"]):
            out.append(dict(part="system", kind=kind, batched=sub, B=B))
        out.append(dict(part="system", kind=kind, batched=[], B=B, hetero=True))       # heterogeneous kappa inside a system
    return out


def _mk(kind, B, hetero=None, dk_both=False):
    import jinns
    from jinns.parameters import Params
    from jinns.parameters._derivative_keys import DerivativeKeysODE, DerivativeKeysPDEStatio, DerivativeKeysPDENonStatio
    from jinns.loss import LossODE, LossPDEStatio, LossPDENonStatio, ODE, PDEStatio, PDENonStatio
    from jinns.data._Batchs import ODEBatch, PDEStatioBatch, PDENonStatioBatch
    ot_theta = lambda i, o, p: o * p.eq_params["theta"]
    d_in = {"ode": 1, "statio": 1, "nonstatio": 2}[kind]
    eq_type = {"ode": "ODE", "statio": "statio_PDE", "nonstatio": "nonstatio_PDE"}[kind]
    u = mk_pinn(d_in, 1, eq_type, deg=1, H=1, ot=ot_theta)
    params = Params(nn_params=u.init_params(), eq_params={"theta": jnp.array(0.7), "kappa": jnp.array(1.3), "mu": jnp.array(0.4)})
    sc = lambda v: jnp.ravel(v)[0]
    if kind == "ode":
        class Eq(ODE):
            def equation(self, t, u, p):
                return jnp.array([psi(0)(u(t, p)[0] + 2.0 * sc(p.eq_params["kappa"]) + 3.0 * sc(p.eq_params["mu"]) + 0.5 * sc(t))])
        dkw = dict(derivative_keys=DerivativeKeysODE.from_str(params, dyn_loss="both", observations="both", initial_condition="both")) if dk_both else {}
        loss = LossODE(u=u, dynamic_loss=Eq(Tmax=(2.5 if hetero else 1), eq_params_heterogeneity=hetero), initial_condition=(jnp.array(0.25), jnp.array([0.5])), params=params, **dkw)
        obs = {"pinn_in": jnp.arange(1, B + 1).reshape(B, 1) * 0.125, "val": jnp.arange(1, B + 1).reshape(B, 1) * 0.25, "eq_params": {}}
        batch = ODEBatch(temporal_batch=jnp.arange(1, B + 1) * 0.2, obs_batch_dict=obs)
    elif kind == "statio":
        class Eq(PDEStatio):
            def equation(self, x, u, p):
                return jnp.array([psi(0)(u(x, p)[0] + 2.0 * sc(p.eq_params["kappa"]) + 3.0 * sc(p.eq_params["mu"]) + 0.5 * x[0])])
        dkw = dict(derivative_keys=DerivativeKeysPDEStatio.from_str(params, dyn_loss="both", observations="both", boundary_loss="both", norm_loss="both")) if dk_both else {}
        loss = LossPDEStatio(u=u, dynamic_loss=Eq(Tmax=(2.5 if hetero else 1), eq_params_heterogeneity=hetero), omega_boundary_fun=lambda dx: 0.5, omega_boundary_condition="dirichlet", params=params, **dkw)
        obs = {"pinn_in": jnp.arange(1, B + 1).reshape(B, 1) * 0.125, "val": jnp.arange(1, B + 1).reshape(B, 1) * 0.25, "eq_params": {}}
        batch = PDEStatioBatch(inside_batch=jnp.arange(1, B + 1).reshape(B, 1) * 0.2, border_batch=jnp.arange(1, 2 * B + 1).reshape(B, 1, 2) * 0.15, obs_batch_dict=obs)
    else:
        class Eq(PDENonStatio):
            def equation(self, t, x, u, p):
                return jnp.array([psi(0)(u(t, x, p)[0] + 2.0 * sc(p.eq_params["kappa"]) + 3.0 * sc(p.eq_params["mu"]) + 0.5 * t[0] + 0.25 * x[0])])
        dkw = dict(derivative_keys=DerivativeKeysPDENonStatio.from_str(params, dyn_loss="both", observations="both", boundary_loss="both", norm_loss="both", initial_condition="both")) if dk_both else {}
        loss = LossPDENonStatio(u=u, dynamic_loss=Eq(Tmax=(2.5 if hetero else 1), eq_params_heterogeneity=hetero), omega_boundary_fun=lambda t, dx: 0.5, omega_boundary_condition="dirichlet",
                                initial_condition_fun=lambda x: 0.25 * x[0], params=params, **dkw)
        obs = {"pinn_in": jnp.arange(1, 2 * B + 1).reshape(B, 2) * 0.125, "val": jnp.arange(1, B + 1).reshape(B, 1) * 0.25, "eq_params": {}}
        batch = PDENonStatioBatch(times_x_inside_batch=jnp.arange(1, 2 * B + 1).reshape(B, 2) * 0.2,
                                  times_x_border_batch=jnp.arange(1, 4 * B + 1).reshape(B, 2, 2) * 0.15, obs_batch_dict=obs)
    return u, params, loss, batch


def run_sequence(cfg, R):
    """evaluate(params, batch_1), evaluate(params, batch_2), evaluate(params, batch_1) with different batched-key subsets: every
    result must be the one of its own batch (no state carried from one evaluation to the next)"""
    kind, B = cfg["kind"], cfg["B"]
    u, params, loss, batch = _mk(kind, B)
    batch = eqx.tree_at(lambda b: b.obs_batch_dict, batch, None)
    def with_pb(keys_):
        pb = {k: (jnp.arange(1, B + 1).reshape(B, 1) * 0.3 + 0.1 * i) for i, k in enumerate(KEYS) if k in keys_}
        return eqx.tree_at(lambda b: b.param_batch_dict, batch, pb if pb else None, is_leaf=lambda x: x is None)
    seqs = [("kappa",), ("theta", "kappa"), (), ("mu",)]
    batches = [with_pb(k_) for k_ in seqs]
    def f(loss, params, batches):
        outs = []
        for b_ in list(batches) + [batches[0], batches[1]]:
            outs.append(loss.evaluate(params, b_)[1]["dyn_loss"])
        ref = []
        for b_ in batches:          # each batch evaluated on its own, on a freshly rebuilt loss object
            ref.append(_mk(kind, B)[2].evaluate(params, b_)[1]["dyn_loss"])
        return outs, ref
    name = f"sequence/{kind}"
    R.note(functions=["jinns.loss.*.evaluate on successive batches with different batched keys", "_get_vmap_in_axes_params"])
    tr = R.trace(name, f, (loss, params, batches), key=f"sequence:{kind}:raises")
    if tr is None: return
    half, quarter = const(Fraction(1, 2), "Real"), const(Fraction(1, 4), "Real")
    def oracle(A, j):
        loss_, p, bs = A
        b_ = bs[j]; keys_ = seqs[j]
        rows = []
        for i in range(B):
            if kind == "ode": z = [b_.temporal_batch[i]]; lin = mul(half, z[0])
            elif kind == "statio": z = list(b_.inside_batch[i]); lin = mul(half, z[0])
            else: z = list(b_.times_x_inside_batch[i]); lin = add(mul(half, z[0]), mul(quarter, z[1]))
            v = lambda k: (b_.param_batch_dict[k][i, 0] if k in keys_ else p.eq_params[k][()])
            arg = add(add(add(mul(D(p.nn_params, z), v("theta")), mul(const(2, "Real"), v("kappa"))), mul(const(3, "Real"), v("mu"))), lin)
            rows.append(sq(uf("psi0_0", arg)))
        return mean(rows)
    def goals(A, O):
        outs, ref = O
        order = list(range(len(seqs))) + [0, 1]
        G = []
        for pos, j in enumerate(order):
            G.append((f"evaluation #{pos} (batched keys {list(seqs[j])}) == the value for ITS batch, whatever was evaluated before", eq(outs[pos][()], oracle(A, j))))
        return G
    def twins(A, O):
        outs, ref = O
        return [("evaluation #1 == value of batch #0", eq(outs[1][()], oracle(A, 0)))]
    R.check(name, tr, goals, twin_fn=twins, key_fn=lambda p_, g: f"sequence:{kind}")


def run_norm(cfg, R):
    import jinns
    from jinns.parameters import Params
    from jinns.loss import LossPDENonStatio, LossWeightsPDENonStatio
    from jinns.data._Batchs import PDENonStatioBatch
    B, batched = cfg["B"], cfg["batched"]
    ns = 3 if B == 2 else 2                      # number of normalisation samples != batch size
    ot_theta = lambda i, o, p: o * p.eq_params["theta"]
    u = mk_pinn(2, 1, "nonstatio_PDE", deg=1, H=1, ot=ot_theta)
    params = Params(nn_params=u.init_params(), eq_params={"theta": jnp.array(0.7), "kappa": jnp.array(1.3), "mu": jnp.array(0.4)})
    loss = LossPDENonStatio(u=u, dynamic_loss=None, norm_samples=jnp.arange(1, ns + 1).reshape(ns, 1) * 0.3, norm_int_length=jnp.array(1.5),
                            loss_weights=LossWeightsPDENonStatio(norm_loss=jnp.array(0.75)), params=params)
    pb = {k: (jnp.arange(1, B + 1).reshape(B, 1) * 0.3 + 0.1 * i) for i, k in enumerate(KEYS) if k in batched}
    batch = PDENonStatioBatch(times_x_inside_batch=jnp.arange(1, 2 * B + 1).reshape(B, 2) * 0.2, times_x_border_batch=None, param_batch_dict=pb)
    name = f"norm/nonstatio/{'+'.join(batched)}"
    R.note(functions=["jinns.loss.LossPDENonStatio.evaluate (normalisation block with a parameter batch)", "jinns.loss._loss_utils.normalization_loss_apply[PINN]"])
    f = lambda loss, params, batch: loss.evaluate(params, batch)
    tr = R.trace(name, f, (loss, params, batch), key="norm:nonstatio:raises")
    if tr is None: return
    def oracle(A, shift=0):
        loss_, p, b_ = A
        w = loss_.loss_weights.norm_loss[()]; L_ = loss_.norm_int_length[()]; S = loss_.norm_samples
        devs = []
        for i in range(B):
            th = b_.param_batch_dict["theta"][(i + shift) % B, 0]
            us = [mul(D(p.nn_params, [b_.times_x_inside_batch[i, 0], S[k, 0]]), th) for k in range(ns)]
            devs.append(sq(sub(mul(L_, mean(us)), const(1, "Real"))))
        return mul(w, mean(devs))
    def goals(A, O):
        total, terms = O
        return [("norm_loss: time stamp i is integrated with row i of every batched parameter", eq(terms["norm_loss"][()], oracle(A)))]
    def twins(A, O):
        total, terms = O
        return [("norm_loss == oracle using row i+1 for time stamp i", eq(terms["norm_loss"][()], oracle(A, shift=1)))]
    R.check(name, tr, goals, twin_fn=twins, key_fn=lambda prog, g: "norm:nonstatio:" + g.split(":")[0])


def run(cfg, R):
    part, kind, B = cfg["part"], cfg["kind"], cfg["B"]
    if part == "system": return run_system(cfg, R)
    if part == "norm": return run_norm(cfg, R)
    if part == "sequence": return run_sequence(cfg, R)
    half, quarter = const(Fraction(1, 2), "Real"), const(Fraction(1, 4), "Real")
    if part == "batch":
        batched = cfg["batched"]
        u, params, loss, batch = _mk(kind, B, dk_both=True)
        pb = {k: (jnp.arange(1, B + 1).reshape(B, 1) * 0.3 + 0.1 * i) for i, k in enumerate(KEYS) if k in batched}
        if cfg.get("flat"): pb = {k: v[:, 0] for k, v in pb.items()}
        batch = eqx.tree_at(lambda b: b.param_batch_dict, batch, pb if pb else None, is_leaf=lambda x: x is None)
        hetero = False
    else:
        # theta and kappa are heterogeneous (functions of the current point and of the raw parameters); mu is undeclared
        batched = []
        if kind == "ode":
            het = {"theta": lambda t, u, p: p.eq_params["theta"] * psi(1)(0.5 * jnp.ravel(t)[0] + p.eq_params["kappa"]), "kappa": lambda t, u, p: psi(2)(p.eq_params["kappa"] + 0.25 * jnp.ravel(t)[0] + p.eq_params["theta"])}
        elif kind == "statio":
            het = {"theta": lambda x, u, p: p.eq_params["theta"] * psi(1)(0.5 * x[0] + p.eq_params["kappa"]), "kappa": lambda x, u, p: psi(2)(p.eq_params["kappa"] + 0.25 * x[0] + p.eq_params["theta"])}
        else:
            het = {"theta": lambda t, x, u, p: p.eq_params["theta"] * psi(1)(0.5 * t[0] + 2.0 * x[0] + p.eq_params["kappa"]), "kappa": lambda t, x, u, p: psi(2)(p.eq_params["kappa"] + 0.25 * t[0] + 3.0 * x[0] + p.eq_params["theta"])}
        u, params, loss, batch = _mk(kind, B, hetero=het)
        if cfg.get("intph"):
            params = eqx.tree_at(lambda p: p.eq_params["kappa"], params, jnp.array(1, dtype=jnp.int32))
        hetero = True
    name = f"{part}/{kind}/{'+'.join(batched) if batched else 'none'}" + ("/int-placeholder" if cfg.get("intph") else "") + ("/1-D-rows" if cfg.get("flat") else "")
    key = f"{part}:{kind}"
    R.note(functions=["jinns.parameters._params._update_eq_params_dict", "_get_vmap_in_axes_params", "jinns.loss._DynamicLossAbstract._decorator_heteregeneous_params",
                      "DynamicLoss._eval_heterogeneous_parameters", "jinns.loss.%s.evaluate" % {"ode": "LossODE", "statio": "LossPDEStatio", "nonstatio": "LossPDENonStatio"}[kind],
                      "boundary_dirichlet_*[PINN]", "initial_condition_apply", "observations_loss_apply"])
    bfield = {"ode": "temporal_batch", "statio": "inside_batch", "nonstatio": "times_x_inside_batch"}[kind]

    def ref_dyn(loss, p, batch):
        """mean over samples of the dynamic term of ONE sample evaluated with its own parameter rows and no parameter batch"""
        tot = 0.0
        for i in range(B):
            pi = p
            for k in batched:
                pi = eqx.tree_at(lambda q, k=k: q.eq_params[k], pi, batch.param_batch_dict[k][i] if batch.param_batch_dict[k].ndim == 1 else batch.param_batch_dict[k][i, 0])
            bi = eqx.tree_at(lambda b: (getattr(b, bfield), b.param_batch_dict, b.obs_batch_dict), batch,
                             (getattr(batch, bfield)[i:i + 1], None, None), is_leaf=lambda x: x is None)
            tot = tot + loss.evaluate(pi, bi)[1]["dyn_loss"]
        return tot / B

    def f(loss, params, batch):
        # the caller's dictionary in the caller's (non-alphabetical) key order: theta, kappa, mu
        params = type(params)(nn_params=params.nn_params, eq_params={k: params.eq_params[k] for k in KEYS})
        out = (loss.evaluate(params, batch), params)
        if part == "batch" and batched:
            g = jax.grad(lambda p: loss.evaluate(p, batch)[1]["dyn_loss"])(params)
            gref = jax.grad(lambda p: ref_dyn(loss, p, batch))(params)
            return out + (g, gref)
        return out
    tr = R.trace(name, f, (loss, params, batch), key=key + ":raises")
    if tr is None: return

    def val(A, k, i, shift=0):
        loss_, p, b_ = A
        if k in batched:
            a_ = b_.param_batch_dict[k]
            return a_[(i + shift) % B] if a_.ndim == 1 else a_[(i + shift) % B, 0]
        return p.eq_params[k][()]

    def oracle(A, shift=0, het_everywhere=False):
        loss_, p, b_ = A
        net = p.nn_params
        out = {}
        rows = []
        for i in range(B):
            if kind == "ode": z = [b_.temporal_batch[i]]; lin = mul(half, z[0])
            elif kind == "statio": z = list(b_.inside_batch[i]); lin = mul(half, z[0])
            else: z = list(b_.times_x_inside_batch[i]); lin = add(mul(half, z[0]), mul(quarter, z[1]))
            th, ka, mu = val(A, "theta", i, shift), val(A, "kappa", i, shift), val(A, "mu", i, shift)
            if hetero:
                if kind == "ode": a1 = mul(half, z[0]); a2 = add(ka, mul(quarter, z[0]))
                elif kind == "statio": a1 = mul(half, z[0]); a2 = add(ka, mul(quarter, z[0]))
                else: a1 = add(mul(half, z[0]), mul(const(2, "Real"), z[1])); a2 = add(add(ka, mul(quarter, z[0])), mul(const(3, "Real"), z[1]))
                # each map reads the RAW value of the other heterogeneous key
                th, ka = mul(th, uf("psi1_0", add(a1, ka))), uf("psi2_0", add(a2, th))
            arg = add(add(add(mul(D(net, z), th), mul(const(2, "Real"), ka)), mul(const(3, "Real"), mu)), lin)
            rows.append(sq(uf("psi0_0", arg)))
        out["dyn_loss"] = mean(rows)
        def th_raw(i):
            t = val(A, "theta", i, shift)
            if hetero and het_everywhere:
                return mul(t, uf("psi1_0", val(A, "kappa", i, shift)))
            return t
        if kind == "ode":
            t0, u0 = loss_.initial_condition
            # the initial condition is one point: with a batched theta it is the mean over the rows
            rr = [sq(sub(mul(D(net, [t0[()]]), th_raw(i)), u0[0])) for i in (range(B) if "theta" in batched else range(1))]
            out["initial_condition"] = mean(rr)
        else:
            bb = b_.border_batch if kind == "statio" else b_.times_x_border_batch
            tot = const(0, "Real")
            for fct in range(2):
                tot = add(tot, mean([sq(sub(mul(D(net, list(bb[i, :, fct])), th_raw(i)), half)) for i in range(B)]))
            out["boundary_loss"] = tot
            if kind == "nonstatio":
                rr = []
                for i in range(B):
                    x = b_.times_x_inside_batch[i, 1]
                    rr.append(sq(sub(mul(quarter, x), mul(D(net, [const(0, "Real"), x]), th_raw(i)))))
                out["initial_condition"] = mean(rr)
        ob = b_.obs_batch_dict
        out["observations"] = mean([sq(sub(mul(D(net, list(ob["pinn_in"][i])), th_raw(i)), ob["val"][i, 0])) for i in range(B)])
        return out

    def goals(A, O):
        (total, terms), p_after = O[0], O[1]
        want = oracle(A)
        G = [(f"{t} evaluates sample i with row i of every batched key and the caller's value otherwise" if not hetero else
              f"{t}: heterogeneous parameters replaced inside the equation only", eq(terms[t][()], w)) for t, w in want.items()]
        p_before = A[1]
        same = all(tuple(np.shape(p_after.eq_params[k])) == tuple(np.shape(p_before.eq_params[k])) for k in KEYS)
        G.append(("the caller's parameters are returned unchanged (shapes)", const(same, "Bool")))
        if same:
            G.append(("the caller's parameters are returned unchanged (values)", tm.conj([eq(p_after.eq_params[k][()], p_before.eq_params[k][()]) for k in KEYS])))
        if len(O) == 4:
            from ..harness import flat_terms
            g, gref = O[2], O[3]
            G.append(("gradient routing: d dyn_loss/d nn_params with a parameter batch == per-sample reference", tm.conj([eq(a, b) for a, b in zip(flat_terms(g.nn_params), flat_terms(gref.nn_params))])))
            for k in KEYS:
                G.append((f"gradient routing: d dyn_loss/d {k} (caller's value) with a parameter batch == per-sample reference", eq(g.eq_params[k][()], gref.eq_params[k][()])))
        return G

    def twins(A, O):
        (total, terms) = O[0]
        tw = []
        if len(O) == 4:
            unb = [k for k in ("kappa", "mu") if k not in batched]
            if unb: tw.append((f"d dyn_loss/d {unb[0]} == 0 although selected and not batched", eq(O[2].eq_params[unb[0]][()], const(0, "Real"))))
        if batched and B > 1:
            w = oracle(A, shift=1)
            tw.append(("dyn_loss == oracle using row i+1 for sample i", eq(terms["dyn_loss"][()], w["dyn_loss"])))
            if "theta" in batched and kind != "ode":
                tw.append(("boundary_loss == oracle using row i+1 for sample i", eq(terms["boundary_loss"][()], w["boundary_loss"])))
        if hetero:
            w = oracle(A, het_everywhere=True)
            tw.append(("observations == oracle with the heterogeneous theta also outside the equation", eq(terms["observations"][()], w["observations"])))
        if not tw:
            tw.append(("dyn_loss == 2 * oracle", eq(terms["dyn_loss"][()], mul(const(2, "Real"), oracle(A)["dyn_loss"]))))
        return tw

    R.check(name, tr, goals, twin_fn=twins, key_fn=lambda prog, g: key + ":" + g.split(" ")[0][:30])


def run_system(cfg, R):
    import jinns
    from jinns.parameters import Params, ParamsDict
    from jinns.loss import SystemLossODE, SystemLossPDE, ODE, PDEStatio, PDENonStatio, LossWeightsODEDict, LossWeightsPDEDict
    from jinns.data._Batchs import ODEBatch, PDEStatioBatch, PDENonStatioBatch
    kind, batched, B = cfg["kind"], cfg["batched"], cfg["B"]
    het_on = cfg.get("hetero", False)
    half, quarter = const(Fraction(1, 2), "Real"), const(Fraction(1, 4), "Real")
    ot_theta = lambda i, o, p: o * p.eq_params["theta"]
    d_in = {"ode": 1, "statio": 1, "nonstatio": 2}[kind]
    if het_on:
        if kind == "ode": hetd = {"kappa": lambda t, u, p: psi(2)(p.eq_params["kappa"] + 0.25 * jnp.ravel(t)[0])}
        elif kind == "statio": hetd = {"kappa": lambda x, u, p: psi(2)(p.eq_params["kappa"] + 0.25 * x[0])}
        else: hetd = {"kappa": lambda t, x, u, p: psi(2)(p.eq_params["kappa"] + 0.25 * t[0] + 3.0 * x[0])}
    else:
        hetd = None
    eq_type = {"ode": "ODE", "statio": "statio_PDE", "nonstatio": "nonstatio_PDE"}[kind]
    ukeys = ("a", "b")
    nets = {k: mk_pinn(d_in, 1, eq_type, deg=1, H=1, ot=ot_theta) for k in ukeys}
    params = ParamsDict(nn_params={k: nets[k].init_params() for k in ukeys}, eq_params={"theta": jnp.array(0.7), "kappa": jnp.array(1.3)})
    sc = lambda v: jnp.ravel(v)[0]
    def body(t, x, ud, pd):
        ev = lambda k: (ud[k](t, pd.extract_params(k)) if kind == "ode" else ud[k](x, pd.extract_params(k)) if kind == "statio" else ud[k](t, x, pd.extract_params(k)))[0]
        s = ev("a") + 2.0 * sc(pd.eq_params["kappa"]) * ev("b")
        if t is not None: s = s + 0.5 * sc(t)
        if x is not None: s = s + 0.25 * x[0]
        return jnp.array([psi(0)(s)])
    if kind == "ode":
        class Eq(ODE):
            def equation(self, t, ud, pd): return body(t, None, ud, pd)
        loss = SystemLossODE(u_dict=nets, dynamic_loss_dict={"a": Eq(Tmax=1, eq_params_heterogeneity=hetd), "b": Eq(Tmax=1, eq_params_heterogeneity=hetd)}, loss_weights=LossWeightsODEDict(dyn_loss=1.0, initial_condition=1.0, observations=1.0), params_dict=params)
        batch = ODEBatch(temporal_batch=jnp.arange(1, B + 1) * 0.2)
    elif kind == "statio":
        class Eq(PDEStatio):
            def equation(self, x, ud, pd): return body(None, x, ud, pd)
        loss = SystemLossPDE(u_dict=nets, dynamic_loss_dict={"a": Eq(Tmax=1, eq_params_heterogeneity=hetd), "b": Eq(Tmax=1, eq_params_heterogeneity=hetd)}, loss_weights=LossWeightsPDEDict(), params_dict=params)
        batch = PDEStatioBatch(inside_batch=jnp.arange(1, B + 1).reshape(B, 1) * 0.2, border_batch=None)
    else:
        class Eq(PDENonStatio):
            def equation(self, t, x, ud, pd): return body(t, x, ud, pd)
        loss = SystemLossPDE(u_dict=nets, dynamic_loss_dict={"a": Eq(Tmax=1, eq_params_heterogeneity=hetd), "b": Eq(Tmax=1, eq_params_heterogeneity=hetd)}, loss_weights=LossWeightsPDEDict(), params_dict=params)
        batch = PDENonStatioBatch(times_x_inside_batch=jnp.arange(1, 2 * B + 1).reshape(B, 2) * 0.2, times_x_border_batch=None)
    pb = {k: (jnp.arange(1, B + 1).reshape(B, 1) * 0.3 + 0.1 * i) for i, k in enumerate(("theta", "kappa")) if k in batched}
    batch = eqx.tree_at(lambda b: b.param_batch_dict, batch, (pb if pb else None), is_leaf=lambda x: x is None)
    name = f"system/{kind}/{'+'.join(batched) if batched else 'hetero-kappa'}"
    key = f"system:{kind}"
    R.note(functions=["jinns.loss.%s.evaluate (parameter batch)" % ("SystemLossODE" if kind == "ode" else "SystemLossPDE")])
    def f(loss, params, batch):
        before = {k: v for k, v in params.eq_params.items()}
        out = loss.evaluate(params, batch)
        after = {k: v for k, v in params.eq_params.items()}
        return out, before, after
    tr = R.trace(name, f, (loss, params, batch), key=key + ":raises")
    if tr is None: return

    def goals(A, O):
        loss_, p, b_ = A
        (total, terms), before, after = O
        rows = []
        for i in range(B):
            if kind == "ode": z = [b_.temporal_batch[i]]; lin = mul(half, z[0])
            elif kind == "statio": z = list(b_.inside_batch[i]); lin = mul(quarter, z[0])
            else: z = list(b_.times_x_inside_batch[i]); lin = add(mul(half, z[0]), mul(quarter, z[1]))
            th = b_.param_batch_dict["theta"][i, 0] if "theta" in batched else p.eq_params["theta"][()]
            ka = b_.param_batch_dict["kappa"][i, 0] if "kappa" in batched else p.eq_params["kappa"][()]
            if het_on:      # kappa is replaced, inside the equation, by its map evaluated at the current point
                if kind == "ode": ka = uf("psi2_0", add(ka, mul(quarter, z[0])))
                elif kind == "statio": ka = uf("psi2_0", add(ka, mul(quarter, z[0])))
                else: ka = uf("psi2_0", add(add(ka, mul(quarter, z[0])), mul(const(3, "Real"), z[1])))
            arg = add(add(mul(D(p.nn_params["a"], z), th), mul(mul(const(2, "Real"), ka), mul(D(p.nn_params["b"], z), th))), lin)
            rows.append(sq(uf("psi0_0", arg)))
        G = [(("system dyn_loss: heterogeneous parameter replaced inside every equation of the system" if het_on else
               "system dyn_loss evaluates sample i with row i of the batched keys (both equations)"), eq(terms["dyn_loss"][()], mul(const(2, "Real"), mean(rows))))]
        same = all(tuple(np.shape(after[k])) == tuple(np.shape(before[k])) for k in before)
        G.append(("the caller's parameter dictionary is not modified by evaluate (shapes)", const(same, "Bool")))
        if same:
            G.append(("the caller's parameter dictionary is not modified by evaluate (values)", tm.conj([eq(after[k][()], before[k][()]) for k in before])))
        return G

    def twins(A, O):
        (total, terms), before, after = O
        return [("system dyn_loss == 0", eq(terms["dyn_loss"][()], const(0, "Real")))]

    R.check(name, tr, goals, twin_fn=twins, key_fn=lambda prog, g: key + ":" + ("mutation" if "modified" in g else "dyn_loss"))

"""C09 -- mini-batching permutes the point set and serves each point once per epoch.
One inductive step of every *_batch method from an arbitrary valid state + unrolled epochs from the
constructor state (cross-check of the invariant)."""
import numpy as np
import jax, jax.numpy as jnp, equinox as eqx
from .. import terms as tm
from ..terms import const, eq, lt, le, bnot, band, bor, implies
from ..genutil import Codes, is_permutation, int_in

INFO = dict(
    bounds=dict(quick="all 1 <= b <= n <= 6 (border: facet rows n <= 4, param: n <= 5, obs: n <= 5); d <= 2; epochs: ceil(n/b)+2 calls from the constructor state for n <= 5",
                thorough="all 1 <= b <= n <= 9 (border, obs, param: n <= 6); d <= 2; epochs for n <= 7"),
    outside=["stores larger than the bound", "the actual threefry stream (jax.random.choice is replaced by: returns a[pi] for an arbitrary permutation pi)",
             "RAR-restricted epochs (C16/C17)"],
    assumptions=["jax.random.choice(key, a, (n,), replace=False, p=None) returns a[pi] for some permutation pi (its documented contract)",
                 "pre-state invariant of the inductive step: curr_idx is the constructor's sentinel or a multiple of the batch size in [0, n)",
                 "int32 arithmetic modelled as mathematical integers + an explicit no-overflow obligation per int32 add/sub/mul"],
)
INT32_MAX = 2 ** 31 - 1
KINDS = ("times", "times_ns", "inside1", "inside2", "border", "param", "obs")
# generators given an initial count (nt_start / n_start) WITHOUT residual-adaptive refinement: the option is documented as ignored, the
# epoch is the whole store
OPT_KINDS = ("times_opt", "inside1_opt", "times_ns_opt")


def configs(tier):
    out = []
    N = 6 if tier == "quick" else 9
    for kind in KINDS:
        nmax = N if kind in ("times", "times_ns", "inside1", "inside2") else (4 if kind == "border" else 5) if tier == "quick" else (N if kind in ("times", "times_ns", "inside1", "inside2") else 6)
        for n in range(1, nmax + 1):
            for b in range(1, n + 1):
                out.append(dict(kind=kind, n=n, b=b, mode="step", x64=False))
                if n <= (5 if tier == "quick" else 7) and (tier == "thorough" or kind in ("times", "inside2", "border", "param", "obs")):
                    out.append(dict(kind=kind, n=n, b=b, mode="epochs", x64=False))
    for kind in OPT_KINDS:
        for (n, b) in ((3, 1), (4, 2), (4, 3)):
            out.append(dict(kind=kind, n=n, b=b, mode="step", x64=False))
            out.append(dict(kind=kind, n=n, b=b, mode="epochs", x64=False))
    return out


def build(kind, n, b):
    """returns (generator, method name, store attr, idx attr, n_rows)"""
    import jinns
    from jinns.data._DataGenerators import DataGeneratorODE, CubicMeshPDEStatio, CubicMeshPDENonStatio, \
        DataGeneratorParameter, DataGeneratorObservations
    key = jax.random.PRNGKey(3)
    if kind == "times":
        g = DataGeneratorODE(key, n, 0.0, 1.0, b, method="uniform")
        return g, "temporal_batch", lambda g: g.times, lambda g: g.curr_time_idx
    if kind == "times_opt":
        g = DataGeneratorODE(key, n, 0.0, 1.0, b, method="uniform", nt_start=1)
        return g, "temporal_batch", lambda g: g.times, lambda g: g.curr_time_idx
    if kind == "inside1_opt":
        g = CubicMeshPDEStatio(key=key, n=n, nb=None, omega_batch_size=b, omega_border_batch_size=None, dim=1, min_pts=(0.0,), max_pts=(1.0,), n_start=1)
        return g, "inside_batch", lambda g: g.omega, lambda g: g.curr_omega_idx
    if kind == "times_ns_opt":
        g = CubicMeshPDENonStatio(key=key, n=2, nb=None, nt=n, omega_batch_size=1, omega_border_batch_size=None, temporal_batch_size=b, dim=1,
                                  min_pts=(0.0,), max_pts=(1.0,), tmin=0.0, tmax=1.0, nt_start=1, n_start=1)
        return g, "temporal_batch", lambda g: g.times, lambda g: g.curr_time_idx
    if kind == "times_ns":
        g = CubicMeshPDENonStatio(key=key, n=2, nb=None, nt=n, omega_batch_size=1, omega_border_batch_size=None,
                                  temporal_batch_size=b, dim=1, min_pts=(0.0,), max_pts=(1.0,), tmin=0.0, tmax=1.0)
        return g, "temporal_batch", lambda g: g.times, lambda g: g.curr_time_idx
    if kind in ("inside1", "inside2"):
        d = int(kind[-1])
        g = CubicMeshPDEStatio(key=key, n=n, nb=None, omega_batch_size=b, omega_border_batch_size=None, dim=d,
                               min_pts=(0.0,) * d, max_pts=(1.0,) * d)
        return g, "inside_batch", lambda g: g.omega, lambda g: g.curr_omega_idx
    if kind == "border":
        g = CubicMeshPDEStatio(key=key, n=2, nb=4 * n, omega_batch_size=1, omega_border_batch_size=b, dim=2,
                               min_pts=(0.0, 0.0), max_pts=(1.0, 1.0))
        return g, "border_batch", lambda g: g.omega_border, lambda g: g.curr_omega_border_idx
    if kind == "param":
        g = DataGeneratorParameter(key, n, b, param_ranges={"nu": (0.0, 1.0), "mu": (2.0, 3.0)})
        return g, "param_batch", lambda g: g.param_n_samples, lambda g: g.curr_param_idx
    if kind == "obs":
        tin = jnp.arange(n * 2, dtype=jnp.float32).reshape(n, 2) * 0.25 + 0.125
        val = jnp.arange(n, dtype=jnp.float32).reshape(n, 1) * 0.5 + 10.0
        g = DataGeneratorObservations(key, b, tin, val)
        return g, "obs_batch", lambda g: g.indices, lambda g: g.curr_idx
    raise ValueError(kind)


def run(cfg, R):
    kind, n, b, mode = cfg["kind"], cfg["n"], cfg["b"], cfg["mode"]
    g, meth, store_of, idx_of = build(kind, n, b)
    cls = type(g).__name__
    R.note(functions=[f"jinns.data.{cls}.{meth}", "jinns.data._DataGenerators._reset_or_increment",
                      "_reset_batch_idx_and_permute", "_increment_batch_idx"],
           stubs_=["jax.random.split -> fresh opaque keys", "jax.random.choice(replace=False) -> a[pi], pi an arbitrary permutation (one-hot Booleans)"])
    sentinel = INT32_MAX - b - 1
    key_base = f"{kind}:{'b|n' if n % b == 0 else 'b-not|n'}"

    def as_sym_idx(g):   # make the python-int index an int32 array so that it becomes a jaxpr input
        return jax.tree_util.tree_map(lambda x: x, eqx.tree_at(idx_of, g, jax.tree_util.tree_map(lambda v: jnp.asarray(v, dtype=jnp.int32), idx_of(g))))

    def stores(gsym):
        s = store_of(gsym)
        return s if isinstance(s, dict) else {"": s}

    def idxs(gsym):
        s = idx_of(gsym)
        return s if isinstance(s, dict) else {"": s}

    def batches(bt):
        if kind == "param": return bt
        if kind == "obs": return {"": bt}
        return {"": bt}

    if mode == "step":
        g0 = as_sym_idx(g)
        f = lambda g: getattr(g, meth)()
        conc = (lambda nm, l: False) if kind != "obs" else (lambda nm, l: False)
        tr = R.trace(f"{kind}/n{n}/b{b}/step", f, (g0,), key=key_base + ":raises", use_stubs=True, missing="example")
        if tr is None: return
        (G,) = tr.A
        S = stores(G); C = idxs(G)

        def pre_assume(A, O):
            out = []
            for k, c in idxs(A[0]).items():
                c = c[()]
                out.append(int_in(c, [sentinel] + [m * b for m in range(0, n) if m * b < n]))
            if kind == "obs":        # the index table is a permutation of 0..n-1
                I = list(store_of(A[0]))
                out.append(is_permutation(I, n))
            return out

        def goals(A, O):
            (G,) = A; newG, bt = O
            out = []
            for k in stores(G):
                S0 = np.asarray(stores(G)[k], dtype=object); S1 = np.asarray(stores(newG)[k], dtype=object)
                c0 = idxs(G)[k][()]; c1 = idxs(newG)[k][()]
                if kind == "obs":
                    # the store is the index table itself (ints): positions are tracked through its symbols
                    cd = Codes(np.array([tm.var(f"slot{j}", "Int") for j in range(n)], dtype=object)) if False else None
                cd = Codes(S0)
                W = cd.W
                S1f = S1.reshape(n, -1)
                ridx = [cd.row_of(S1f[i, 0]) for i in range(n)]
                tag = f"[{k}]" if k else ""
                out.append((f"store{tag} after the call is a permutation of the store before", is_permutation(ridx, n)))
                rows_ok = tm.conj([band(eq(cd.row_of(S1f[i, j]), ridx[i]), eq(cd.col_of(S1f[i, j]), const(j, "Int")))
                                   for i in range(n) for j in range(W)])
                out.append((f"store{tag} rows are moved as units (coordinates/facets stay together)", rows_ok))
                all_served = bor(eq(c0, const(sentinel, "Int")), le(const(n, "Int"), tm.add(c0, const(b, "Int"))))
                out.append((f"{tag}all points served => reshuffle (curr_idx' == 0)", implies(all_served, eq(c1, const(0, "Int")))))
                same = tm.conj([eq(ridx[i], const(i, "Int")) for i in range(n)])
                out.append((f"{tag}points remain => store unchanged and curr_idx' == curr_idx + b",
                            implies(bnot(all_served), band(same, eq(c1, tm.add(c0, const(b, "Int")))))))
                out.append((f"{tag}invariant re-established (curr_idx' multiple of b in [0,n))",
                            int_in(c1, [m * b for m in range(0, n) if m * b < n])))
                # the served batch is the slice of the (new) store at min(curr_idx', n-b)
                B = np.asarray(batches(bt)[k] if kind != "obs" else bt["pinn_in"], dtype=object)
                if kind == "obs":
                    continue
                Bf = B.reshape(b, -1)
                conds = []
                for start in range(0, n - b + 1):
                    here = eq(c1, const(start, "Int")) if start < n - b else le(const(n - b, "Int"), c1)
                    conds.append(implies(here, tm.conj([eq(cd.row_of(Bf[j, 0]), ridx[start + j]) for j in range(b)])))
                out.append((f"{tag}batch == new_store[min(curr_idx', n-b) : +b]", tm.conj(conds)))
                out.append((f"{tag}batch rows are whole stored rows",
                            tm.conj([band(eq(cd.row_of(Bf[j, q]), cd.row_of(Bf[j, 0])), eq(cd.col_of(Bf[j, q]), const(q, "Int")))
                                     for j in range(b) for q in range(W)])))
            if kind == "obs":
                I0 = list(np.asarray(store_of(G), dtype=object)); I1 = list(np.asarray(store_of(newG), dtype=object))
                c1 = idx_of(newG)[()]
                tin = np.asarray(G.observed_pinn_in, dtype=object); tv = np.asarray(G.observed_values, dtype=object)
                cin, cv = Codes(tin), Codes(tv)
                conds = []
                for start in range(0, n - b + 1):
                    here = eq(c1, const(start, "Int")) if start < n - b else le(const(n - b, "Int"), c1)
                    rows = []
                    for j in range(b):
                        r = I1[start + j]
                        rows.append(eq(cin.row_of(bt["pinn_in"][j, 0]), r)); rows.append(eq(cin.row_of(bt["pinn_in"][j, 1]), r))
                        rows.append(eq(cv.row_of(bt["val"][j, 0]), r))
                    conds.append(implies(here, tm.conj(rows)))
                out.append(("obs batch rows == table rows indices'[min(curr_idx', n-b) : +b] (input and value aligned)", tm.conj(conds)))
            return out

        def twins(A, O):
            (G,) = A; newG, bt = O
            k = next(iter(stores(G)))
            c0 = idxs(G)[k][()]; c1 = idxs(newG)[k][()]
            tw = [("curr_idx' == curr_idx + b always (never reshuffles)", eq(c1, tm.add(c0, const(b, "Int"))))]
            if n > 1:
                cd = Codes(np.asarray(stores(G)[k], dtype=object))
                S1f = np.asarray(stores(newG)[k], dtype=object).reshape(n, -1)
                tw.append(("store never changes", tm.conj([eq(cd.row_of(S1f[i, 0]), const(i, "Int")) for i in range(n)])))
            return tw

        R.check(f"{kind}/n{n}/b{b}/step", tr, goals, twin_fn=twins, extra_assume_fn=pre_assume, validate=False,
                interp_kw=dict(int32_overflow=True), key_fn=lambda prog, gname: f"{key_base}:{gname.split('(')[0].strip()}")
        return

    # ---------------------------------------------------------------- unrolled epochs from the constructor state
    ncalls = -(-n // b) + 2 + (-(-n // b))
    def f(g):
        outs = []
        for _ in range(ncalls):
            g, bt = getattr(g, meth)()
            outs.append((idx_of(g), bt if kind != "obs" else bt["pinn_in"]))
        return g, outs
    tr = R.trace(f"{kind}/n{n}/b{b}/epochs", f, (g,), key=key_base + ":raises", use_stubs=True, missing="example",
                 conc=lambda nm, l: nm.endswith("indices"))
    if tr is None: return

    def goals(A, O):
        (G,) = A; newG, outs = O
        out = []
        S0 = stores(G)
        for k in S0:
            st = np.asarray(S0[k], dtype=object) if kind != "obs" else np.asarray(G.observed_pinn_in, dtype=object)
            cd = Codes(st)
            cs = []
            for (ci, bt) in outs:
                c = (ci[k] if isinstance(ci, dict) else ci)[()]
                if not c.is_const:
                    return [("curr_idx is concrete along the run from the constructor state", tm.FALSE)]
                cs.append(int(c.val))
            served = []
            for (ci, bt) in outs:
                B = np.asarray(bt[k] if isinstance(bt, dict) else bt, dtype=object).reshape(b, -1)
                served.append([cd.row_of(B[j, 0]) for j in range(b)])
            # epochs = maximal runs between resets (curr_idx == 0)
            starts = [i for i, c in enumerate(cs) if c == 0]
            tag = f"[{k}]" if k else ""
            out.append((f"{tag}first call reshuffles", const(bool(cs) and cs[0] == 0, "Bool")))
            need = -(-n // b)
            for e, s0 in enumerate(starts):
                s1 = starts[e + 1] if e + 1 < len(starts) else None
                if s1 is None: break
                out.append((f"{tag}epoch {e} has exactly ceil(n/b) batches (reshuffle as soon as all points are served)",
                            const(s1 - s0 == need, "Bool")))
                flat = [t for i in range(s0, s1) for t in served[i]]
                for p in range(n):
                    hits = [eq(t, const(p, "Int")) for t in flat]
                    if n % b == 0:
                        from ..genutil import exactly_one
                        out.append((f"{tag}epoch {e}: point {p} served exactly once", exactly_one(hits)))
                    else:
                        out.append((f"{tag}epoch {e}: point {p} served at least once", tm.disj(hits)))
            if len(starts) < 2:
                out.append((f"{tag}at least one complete epoch within the unrolling", tm.FALSE))
        return out

    R.check(f"{kind}/n{n}/b{b}/epochs", tr, goals, validate=False, interp_kw=dict(int32_overflow=True),
            key_fn=lambda prog, gname: f"{key_base}:epochs:{gname.split(':')[-1].split('point')[0].strip()}")

"""C04 -- boundary term: Dirichlet / outward-normal Neumann per facet (PINN branch)."""
import itertools
import numpy as np
import jax, jax.numpy as jnp, equinox as eqx
from fractions import Fraction
from .. import terms as tm
from ..terms import const, add, mul, neg, sub, eq, uf
from ..harness import Traced
from ..nets import mk_pinn, D, unit, sq, mean
from ..stubs import psi

INFO = dict(
    bounds=dict(quick="d in {1,2}; stationary and non-stationary (1 and 2 time points); <=2 border points per facet; global specs {dirichlet, neumann} x f returning scalar/(1,); per-facet specs: all of {dirichlet,neumann,None}^2 for d=1 and a covering subset for d=2; n_out<=2 with component selection",
                thorough="as quick, plus all 81 per-facet specs for d=2 (stationary) and 3 border points"),
    outside=["3-D domains (not implemented by jinns)", "more than 3 border points per facet / 2 time points", "SPINN branch (checked in C11)",
             "per-component boundary weights (the implementation applies the weight after the component sum)"],
    assumptions=["floats are mathematical reals", "f = psi_k(linear form of the point) with psi_k an uninterpreted smooth function",
                 "border batch rows are arbitrary points (not assumed to lie on the facet) so that facet selection is visible"],
)

C = {"d": "dirichlet", "n": "neumann", "0": None}


def configs(tier):
    out = []
    for kind in ("statio", "nonstatio"):
        nts = (1,) if kind == "statio" else (1, 2)
        for nt in nts:
            # global specifications
            for d in (1, 2):
                nbs = (1,) if d == 1 else ((1, 2) if tier == "quick" else (1, 2, 3))
                for nb in nbs:
                    for cond in ("d", "n"):
                        for fshape in ("scalar", "vec1"):
                            for n_out, dim in ((1, None), (2, 1), (2, 0)) + (((2, None),) if cond == "d" else ()):
                                if tier == "quick" and d == 2 and nb == 1 and (n_out, dim) != (1, None): continue
                                out.append(dict(kind=kind, nt=nt, d=d, nb=nb, spec="global", cond=cond, fshape=fshape, n_out=n_out, dim=dim))
            # per-facet specifications
            for spec in itertools.product("dn0", repeat=2):
                if all(s == "0" for s in spec): continue
                out.append(dict(kind=kind, nt=nt, d=1, nb=1, spec="".join(spec), fshape="vec1", n_out=1, dim=None))
            specs2 = list(itertools.product("dn0", repeat=4))
            if tier == "quick" or kind == "nonstatio":
                specs2 = [s for k, s in enumerate(specs2) if "".join(s) in ("d000", "0n00", "00d0", "000n", "dndn", "nd0d", "nnnn", "0dn0")]
            for spec in specs2:
                if all(s == "0" for s in spec): continue
                out.append(dict(kind=kind, nt=nt, d=2, nb=2, spec="".join(spec), fshape="vec1", n_out=1, dim=None))
    return out


NORMALS = {1: [(-1,), (1,)], 2: [(-1, 0), (1, 0), (0, -1), (0, 1)]}
FACETS = {1: ["xmin", "xmax"], 2: ["xmin", "xmax", "ymin", "ymax"]}


def run(cfg, R):
    import jinns
    from jinns.parameters import Params
    from jinns.loss import LossPDEStatio, LossPDENonStatio, LossWeightsPDEStatio, LossWeightsPDENonStatio
    from jinns.data._Batchs import PDEStatioBatch, PDENonStatioBatch
    kind, nt, d, nb, spec, fshape, n_out, dim = (cfg[k] for k in ("kind", "nt", "d", "nb", "spec", "fshape", "n_out", "dim"))
    nf = 2 * d
    statio = kind == "statio"
    d_in = d if statio else 1 + d
    u = mk_pinn(d_in, n_out, "statio_PDE" if statio else "nonstatio_PDE", deg=2, H=1)
    params = Params(nn_params=u.init_params(), eq_params={"theta": jnp.array(0.3)})

    def lin(k, *a):
        # linear form of the point: statio (dx,), nonstatio (t, dx)
        if statio:
            (dx,) = a
            return 0.5 * dx[0] + 0.25 * dx[-1] * (d - 1) + 0.125 * (k + 1)
        t, dx = a
        return 2.0 * t[0] + 0.5 * dx[0] + 0.25 * dx[-1] * (d - 1) + 0.125 * (k + 1)

    def mk_f(k):
        if fshape == "scalar":
            return lambda *a: psi(k)(lin(k, *a))
        return lambda *a: jnp.array([psi(k)(lin(k, *a))])

    if spec == "global":
        bc = C[cfg["cond"]]; bf = mk_f(4); bdim = dim
        conds = [cfg["cond"]] * nf; fk = [4] * nf
    else:
        bc = {FACETS[d][k]: C[s] for k, s in enumerate(spec)}
        bf = {FACETS[d][k]: (mk_f(k) if s != "0" else None) for k, s in enumerate(spec)}
        bdim = None
        conds = list(spec); fk = list(range(nf))
    w = jnp.array(0.75)
    n_rows = nb * nt        # rows of the (times x) border batch
    if statio:
        loss = LossPDEStatio(u=u, dynamic_loss=None, omega_boundary_fun=bf, omega_boundary_condition=bc, omega_boundary_dim=bdim,
                             loss_weights=LossWeightsPDEStatio(boundary_loss=w), params=params)
        batch = PDEStatioBatch(inside_batch=jnp.ones((1, d)) * 0.5, border_batch=jnp.arange(1, n_rows * d * nf + 1).reshape(n_rows, d, nf) * 0.0625)
    else:
        loss = LossPDENonStatio(u=u, dynamic_loss=None, omega_boundary_fun=bf, omega_boundary_condition=bc, omega_boundary_dim=bdim,
                                loss_weights=LossWeightsPDENonStatio(boundary_loss=w), params=params)
        batch = PDENonStatioBatch(times_x_inside_batch=jnp.ones((1, 1 + d)) * 0.5,
                                  times_x_border_batch=jnp.arange(1, n_rows * (1 + d) * nf + 1).reshape(n_rows, 1 + d, nf) * 0.0625)
    R.note(functions=["jinns.loss.%s.evaluate" % ("LossPDEStatio" if statio else "LossPDENonStatio"),
                      "jinns.loss._loss_utils.boundary_condition_apply", "jinns.loss._boundary_conditions._compute_boundary_loss",
                      "boundary_dirichlet_%s[PINN]" % kind, "boundary_neumann_%s[PINN]" % kind])
    f = lambda loss, params, batch: loss.evaluate(params, batch)
    name = f"{kind}/nt{nt}/d{d}/nb{nb}/{spec}" + (f"-{cfg['cond']}" if spec == "global" else "") + f"/{fshape}/out{n_out}dim{dim}"
    key = f"{kind}:d={d}:" + ("neumann" if "n" in (cfg.get("cond", "") if spec == "global" else spec) else "dirichlet")
    tr = R.trace(name, f, (loss, params, batch), key=key + ":raises")
    if tr is None: return

    comps = list(range(n_out)) if dim is None else [dim]

    def oracle(A, normals=None, facet_perm=None, as_sum=False):
        loss_, p, b_ = A
        net = p.nn_params
        bb = b_.border_batch if statio else b_.times_x_border_batch
        wt = loss_.loss_weights.boundary_loss[()]
        normals = normals or NORMALS[d]
        tot = const(0, "Real")
        for k in range(nf):
            if conds[k] == "0": continue
            kk = facet_perm[k] if facet_perm else k
            rows = []
            for i in range(n_rows):
                z = list(bb[i, :, kk])
                x_ = z if statio else z[1:]
                arg = add(mul(const(Fraction(1, 2), "Real"), x_[0]), mul(const(Fraction(d - 1, 4), "Real"), x_[-1]))
                arg = add(arg, const(Fraction(fk[k] + 1, 8), "Real"))
                if not statio: arg = add(arg, mul(const(2, "Real"), z[0]))
                F = uf(f"psi{fk[k]}_0", arg)
                if conds[k] == "d":
                    rows.append(tm.ssum([sq(sub(D(net, z, None, c), F)) for c in comps]))
                else:
                    c = comps[0]
                    off = 0 if statio else 1
                    dn = tm.ssum([mul(const(normals[k][j], "Real"), D(net, z, unit(d_in, off + j, 1), c)) for j in range(d)])
                    rows.append(sq(sub(dn, F)))
            tot = add(tot, mul(wt, tm.ssum(rows) if as_sum else mean(rows)))
        return tot

    def goals(A, O):
        total, terms = O
        return [("boundary_loss == sum_facets w * mean_i (mismatch_i)^2, outward normals, facets xmin,xmax,ymin,ymax",
                 eq(terms["boundary_loss"][()], oracle(A)))]

    def twins(A, O):
        total, terms = O
        bl = terms["boundary_loss"][()]
        tw = []
        if any(c == "n" for c in conds):
            tw.append(("boundary_loss == oracle with inward normals", eq(bl, oracle(A, normals=[tuple(-x for x in n) for n in NORMALS[d]]))))
        if n_rows > 1:
            tw.append(("boundary_loss == oracle with sum over points instead of mean", eq(bl, oracle(A, as_sum=True))))
        if spec != "global" or any(c == "n" for c in conds):
            perm = list(range(nf)); perm[0], perm[-1] = perm[-1], perm[0]
            if [conds[k] for k in perm] != conds or spec == "global":
                tw.append(("boundary_loss == oracle reading facets in a different order", eq(bl, oracle(A, facet_perm=perm))))
        tw.append(("boundary_loss == 2 * oracle", eq(bl, mul(const(2, "Real"), oracle(A)))))
        return tw

    def keyf(prog, g):
        return key

    R.check(name, tr, goals, twin_fn=twins, key_fn=keyf)

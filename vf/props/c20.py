"""C20 -- loss evaluation and batch drawing are pure and compilation-invariant."""
import numpy as np
import jax, jax.numpy as jnp, equinox as eqx
from .. import terms as tm
from ..terms import const, eq
from ..harness import flat_terms, _is_objarr

INFO = dict(
    bounds=dict(quick="every loss kind (ODE, stationary, non-stationary, ODE system, PDE systems) with and without parameter / observation parts, batch size 2; every generator kind with stores of 4 points; two consecutive evaluations, jit, value_and_grad primal",
                thorough="same with batch size 3 and stores of 6 points"),
    outside=["eager op-by-op dispatch vs traced execution (JAX's contract, trusted): what is checked is that the same python callable, traced plainly, under jit and under value_and_grad, yields the same dataflow, and that a second call sees unchanged arguments",
             "floating-point rounding"],
    assumptions=["floats are mathematical reals", "jax.random contracts for generators"],
    fresh_process=True,       # one process per configuration: state a loss keeps at module level must not be pre-consumed by another configuration
)


def configs(tier):
    B = 2 if tier == "quick" else 3
    out = []
    for kind in ("ode", "statio", "nonstatio"):
        for extra in ("plain", "param", "param+obs", "param+obs_eq"):
            out.append(dict(what="loss", kind=kind, extra=extra, B=B))
    for kind in ("system_ode", "system_statio", "system_nonstatio"):
        for extra in ("plain", "param"):
            out.append(dict(what="loss", kind=kind, extra=extra, B=B))
        # the system, its parameters and its batch are built inside the evaluated function with the user's (non-alphabetical) key order:
        # eager evaluation sees that order, jit / value_and_grad see pytree-sorted dictionaries
        out.append(dict(what="loss", kind=kind, extra="user-order", B=B))
        # observations for one unknown; the same loss object is also evaluated on the batch WITHOUT observations, before and after
        out.append(dict(what="loss", kind=kind, extra="obs", B=B))
    for kind in ("statio", "nonstatio"):
        out.append(dict(what="loss", kind=kind, extra="facet-dict", B=B))      # boundary conditions given per facet (dictionaries)
    # a term switched off by a plain python zero weight whose data are missing (NaN observations, NaN domain of C18): 0 * NaN is NaN in
    # every execution mode alike
    out.append(dict(what="loss", kind="ode", extra="nan-obs", B=B))
    n = 4 if tier == "quick" else 6
    for gk in ("times", "inside2", "border", "nonstatio", "param", "obs"):
        out.append(dict(what="gen", kind=gk, n=n, b=2, x64=False))
    # first draw from the constructor state: eager (python-int cursors) vs jax.jit (int32 cursors, as jinns.solve compiles it),
    # with all orderings of unequal batch sizes
    for (bt, bx, bb) in ((3, 1, 1), (1, 3, 2), (2, 1, 3)):
        out.append(dict(what="gen_ctor", bt=bt, bx=bx, bb=bb, n=n, x64=False))
    for gk in ("times", "param", "obs", "times_rar"):       # times_rar: a generator set up for refinement (sampling probabilities, partly inactive store)
        out.append(dict(what="gen_ctor", kind=gk, n=n, b=3, x64=False))
    return out


def leaves_with_shapes(tree):
    return [l for l in jax.tree_util.tree_leaves(tree, is_leaf=_is_objarr) if _is_objarr(l)]


def _same(p, q):
    from .. import nanmode
    if nanmode._o:          # NaN domain installed: same NaN flag and, where not NaN, same value
        return nanmode.feq(p, q)
    return eq(p, q)


def same_tree(label, a, b):
    la, lb = leaves_with_shapes(a), leaves_with_shapes(b)
    if len(la) != len(lb) or any(x.shape != y.shape for x, y in zip(la, lb)):
        return [(label + " (structure/shapes)", tm.FALSE)]
    return [(label, tm.conj([_same(p, q) for x, y in zip(la, lb) for p, q in zip(x.flat, y.flat)]))]


def run_gen_ctor(cfg, R):
    import jinns.data._DataGenerators as DG
    n = cfg["n"]
    key = jax.random.PRNGKey(6)
    if "kind" not in cfg:
        bt, bx, bb = cfg["bt"], cfg["bx"], cfg["bb"]
        g = DG.CubicMeshPDENonStatio(key=key, n=n, nb=4 * n, nt=n, omega_batch_size=bx, omega_border_batch_size=bb, temporal_batch_size=bt, dim=2,
                                     min_pts=(0.0, 0.0), max_pts=(1.0, 1.0), tmin=0.0, tmax=1.0)
        name = f"gen_ctor/nonstatio/bt{bt}bx{bx}bb{bb}"
    else:
        b = cfg["b"]
        g = {"times": lambda: DG.DataGeneratorODE(key, n, 0.0, 1.0, b),
             "times_rar": lambda: DG.DataGeneratorODE(key, n + 2, 0.0, 1.0, b, nt_start=n,
                                                      rar_parameters={"start_iter": 0, "update_every": 1, "sample_size_times": 2, "selected_sample_size_times": 1}),
             "param": lambda: DG.DataGeneratorParameter(key, n, b, param_ranges={"nu": (0.0, 1.0)}),
             "obs": lambda: DG.DataGeneratorObservations(key, b, jnp.arange(n * 2, dtype=jnp.float32).reshape(n, 2), jnp.arange(n, dtype=jnp.float32).reshape(n, 1))}[cfg["kind"]]()
        name = f"gen_ctor/{cfg['kind']}/b{b}"
    R.note(functions=[f"jinns.data.{type(g).__name__}.get_batch from the constructor state: eager vs jax.jit (as compiled by jinns.solve)"], stubs_=["jax.random contracts"])
    def f(g):
        r1 = g.get_batch()
        rj = jax.jit(lambda gg: gg.get_batch())(g)
        r2 = r1[0].get_batch(); rj2 = jax.jit(lambda gg: gg.get_batch())(rj[0])
        return r1[1], rj[1], r2[1], rj2[1]
    tr = R.trace(name, f, (g,), key="gen_ctor:raises", use_stubs=True, trace_only_is_violation=True, missing="example", conc=lambda nm, l: nm.endswith("indices"))
    if tr is None: return
    def goals(A, O):
        b1, bj, b2, bj2 = O
        return same_tree("first batch from the constructor state: jit == eager", b1, bj) + same_tree("second batch: jit == eager", b2, bj2)
    R.check(name, tr, goals, validate=False, key_fn=lambda prog, g_: "gen_ctor:" + g_.split(":")[0][:40])


def run(cfg, R):
    if cfg["what"] == "gen": return run_gen(cfg, R)
    if cfg["what"] == "gen_ctor": return run_gen_ctor(cfg, R)
    from .c12 import _mk
    import jinns
    from jinns.parameters import Params, ParamsDict
    kind, extra, B = cfg["kind"], cfg["extra"], cfg["B"]
    userorder = (extra == "user-order")
    nanobs = (extra == "nan-obs")
    if nanobs:
        from .. import nanmode
        nanmode.install()
    if kind.startswith("system"):
        from .c12 import run_system as _rs
        loss, params, batch = build_system(kind.split("_")[1], B, extra, keys=(("x", "v") if userorder else ("a", "b")))
    elif extra == "facet-dict":
        loss, params, batch = build_facet_dict(kind, B)
    else:
        u, params, loss, batch = _mk(kind, B)
        if nanobs:
            from jinns.loss import LossWeightsODE
            loss = eqx.tree_at(lambda l: l.loss_weights, loss, LossWeightsODE(dyn_loss=1.0, initial_condition=1.0, observations=0.0))
        elif extra == "plain":
            batch = eqx.tree_at(lambda b: b.obs_batch_dict, batch, None)
        else:
            pb = {"kappa": jnp.arange(1, B + 1).reshape(B, 1) * 0.3, "theta": jnp.arange(1, B + 1).reshape(B, 1) * 0.2 + 0.05}
            batch = eqx.tree_at(lambda b: b.param_batch_dict, batch, pb, is_leaf=lambda x: x is None)
            if extra == "param":
                batch = eqx.tree_at(lambda b: b.obs_batch_dict, batch, None)
            if extra == "param+obs_eq":      # observed equation parameter next to a parameter batch
                batch = eqx.tree_at(lambda b: b.obs_batch_dict["eq_params"], batch, {"mu": jnp.arange(1, B + 1).reshape(B, 1) * 0.15})
    name = f"loss/{kind}/{extra}"
    key = f"{kind}:{extra}"
    R.note(functions=["%s.evaluate called twice, under jax.jit and under jax.value_and_grad(has_aux=True)" %
                      {"ode": "LossODE", "statio": "LossPDEStatio", "nonstatio": "LossPDENonStatio", "system_ode": "SystemLossODE"}.get(kind, "SystemLossPDE")])

    def f(loss, params, batch):
        if userorder:
            # rebuilt from the user's pieces, in the user's order (the harness' own flattening sorted the dictionaries of its arguments)
            ks = ("x", "v")
            loss, _, _ = build_system(kind.split("_")[1], B, extra, keys=ks, params=type(params)(nn_params={k: params.nn_params[k] for k in ks},
                                                                                              eq_params={k: params.eq_params[k] for k in ("theta", "kappa")}))
            params = type(params)(nn_params={k: params.nn_params[k] for k in ks}, eq_params={k: params.eq_params[k] for k in ("theta", "kappa")})
        snap = lambda l: jax.tree_util.tree_leaves(eqx.filter(l, eqx.is_array))          # array leaves of the loss object
        lb = snap(loss)
        if extra == "obs":
            noobs = eqx.tree_at(lambda b: b.obs_batch_dict, batch, None)
            r0 = loss.evaluate(params, noobs)
        r1 = loss.evaluate(params, batch)
        mid = (jax.tree_util.tree_map(lambda x: x, params), jax.tree_util.tree_map(lambda x: x, batch))
        r2 = loss.evaluate(params, batch)
        rj = eqx.filter_jit(lambda l, p, b: l.evaluate(p, b))(loss, params, batch)
        # plain jax.jit with the loss object as an ARGUMENT (what jinns.solve compiles: python-number leaves such as weights become traced values)
        rj = (rj, jax.jit(lambda l, p, b: l.evaluate(p, b))(loss, params, batch))
        (v, aux), _g = jax.value_and_grad(lambda p: loss.evaluate(p, batch), has_aux=True)(params)
        after = (jax.tree_util.tree_map(lambda x: x, params), jax.tree_util.tree_map(lambda x: x, batch), snap(loss))
        if extra == "obs":
            r3 = loss.evaluate(params, noobs)
            return r1, r2, rj, (v, aux), mid, after, lb, (r0, r3)
        return r1, r2, rj, (v, aux), mid, after, lb

    tr = R.trace(name, f, (loss, params, batch), key=key + ":raises", trace_only_is_violation=True)
    if tr is None: return
    if nanobs:
        # symbolic NaN flags on the observed values; replays write NaN where the model sets a flag
        from ..nanmode import FN
        vname = [nm for nm in tr.names if nm.endswith("obs_batch_dict_val")][0]
        kv = tr.names.index(vname)
        arr = tr.sym_ins[kv]; fl = np.empty(arr.shape, dtype=object)
        for idx in np.ndindex(*arr.shape):
            fl[idx] = FN(arr[idx], tm.var("nan_val" + "".join(f"_{i}" for i in idx), "Bool"))
        tr.sym_ins[kv] = fl; tr.A = tr._rebuild(tr.sym_ins)
        def leaf_hook(model, leaves):
            out = []
            for nm, l in zip(tr.names, leaves):
                if nm == vname:
                    a = np.array(l, dtype=np.float64)
                    for idx in np.ndindex(*a.shape):
                        if model.get("nan_val" + "".join(f"_{i}" for i in idx), False): a[idx] = np.nan
                    l = jnp.asarray(a)
                out.append(l)
            return out
        tr.leaf_hook = leaf_hook

    def goals(A, O):
        loss_, p, b_ = A
        r1, r2, rj, rv, mid, after, lb = O[:7]
        G = []
        if len(O) > 7:
            G += same_tree("a repeated evaluation on the batch without observations returns the same result after the loss was evaluated with observations", O[7][0], O[7][1])
        G += same_tree("a repeated evaluation on the same arguments returns the same result", r1, r2)
        G += same_tree("jit(evaluate) returns the same result", r1, rj[0])
        G += same_tree("jit(evaluate) with the loss object as an argument returns the same result", r1, rj[1])
        G += same_tree("the primal output of value_and_grad(evaluate) is the same result", r1, rv)
        G += same_tree("args-unchanged: parameters after one evaluation are the caller's parameters", mid[0], p)
        G += same_tree("args-unchanged: batch after one evaluation is the caller's batch", mid[1], b_)
        G += same_tree("args-unchanged: parameters after all evaluations", after[0], p)
        G += same_tree("args-unchanged: batch after all evaluations", after[1], b_)
        G += same_tree("args-unchanged: loss object after all evaluations", after[2], lb)
        return G

    def twins(A, O):
        r1, r2, rj, rv, mid, after, lb = O[:7]
        t = flat_terms(r1)[0]
        return [("the total loss is identically 0", eq(t, const(0, "Real")))]

    R.check(name, tr, goals, twin_fn=twins, validate=(not nanobs), key_fn=lambda prog, g: key + ":" + g.split(":")[0][:40])


def build_facet_dict(kind, B):
    """single PDE losses whose boundary conditions are per-facet dictionaries (1-D: xmin Dirichlet, xmax Neumann)"""
    import jinns
    from jinns.parameters import Params
    from jinns.loss import LossPDEStatio, LossPDENonStatio, PDEStatio, PDENonStatio
    from jinns.data._Batchs import PDEStatioBatch, PDENonStatioBatch
    from ..nets import mk_pinn
    from ..stubs import psi
    ot_theta = lambda i, o, p: o * p.eq_params["theta"]
    statio = kind == "statio"
    u = mk_pinn(1 if statio else 2, 1, "statio_PDE" if statio else "nonstatio_PDE", deg=1, H=1, ot=ot_theta)
    params = Params(nn_params=u.init_params(), eq_params={"theta": jnp.array(0.7), "kappa": jnp.array(1.3)})
    sc = lambda v: jnp.ravel(v)[0]
    if statio:
        class Eq(PDEStatio):
            def equation(self, x, u, p): return jnp.array([psi(0)(u(x, p)[0] + 2.0 * sc(p.eq_params["kappa"]) + 0.5 * x[0])])
        loss = LossPDEStatio(u=u, dynamic_loss=Eq(Tmax=1), omega_boundary_fun={"xmin": lambda dx: 0.5, "xmax": lambda dx: 0.25},
                             omega_boundary_condition={"xmin": "dirichlet", "xmax": "neumann"}, params=params)
        batch = PDEStatioBatch(inside_batch=jnp.arange(1, B + 1).reshape(B, 1) * 0.2, border_batch=jnp.arange(1, 2 * B + 1).reshape(B, 1, 2) * 0.15)
    else:
        class Eq(PDENonStatio):
            def equation(self, t, x, u, p): return jnp.array([psi(0)(u(t, x, p)[0] + 2.0 * sc(p.eq_params["kappa"]) + 0.5 * t[0] + 0.25 * x[0])])
        loss = LossPDENonStatio(u=u, dynamic_loss=Eq(Tmax=1), omega_boundary_fun={"xmin": lambda t, dx: 0.5, "xmax": lambda t, dx: 0.25},
                                omega_boundary_condition={"xmin": "dirichlet", "xmax": "neumann"}, initial_condition_fun=lambda x: 0.25 * x[0], params=params)
        batch = PDENonStatioBatch(times_x_inside_batch=jnp.arange(1, 2 * B + 1).reshape(B, 2) * 0.2, times_x_border_batch=jnp.arange(1, 4 * B + 1).reshape(B, 2, 2) * 0.15)
    return loss, params, batch


def build_system(sk, B, extra, keys=("a", "b"), params=None):
    import jinns
    from jinns.parameters import ParamsDict
    from jinns.loss import SystemLossODE, SystemLossPDE, ODE, PDEStatio, PDENonStatio, LossWeightsODEDict, LossWeightsPDEDict
    from jinns.data._Batchs import ODEBatch, PDEStatioBatch, PDENonStatioBatch
    from ..nets import mk_pinn
    from ..stubs import psi
    ot_theta = lambda i, o, p: o * p.eq_params["theta"]
    d_in = {"ode": 1, "statio": 1, "nonstatio": 2}[sk]
    eq_type = {"ode": "ODE", "statio": "statio_PDE", "nonstatio": "nonstatio_PDE"}[sk]
    ka_, kb_ = keys
    nets = {k: mk_pinn(d_in, 1, eq_type, deg=1, H=1, ot=ot_theta) for k in keys}
    if params is None:
        params = ParamsDict(nn_params={k: nets[k].init_params() for k in nets}, eq_params={"theta": jnp.array(0.7), "kappa": jnp.array(1.3)})
    sc = lambda v: jnp.ravel(v)[0]
    def body(t, x, ud, pd):
        ev = lambda k: (ud[k](t, pd.extract_params(k)) if sk == "ode" else ud[k](x, pd.extract_params(k)) if sk == "statio" else ud[k](t, x, pd.extract_params(k)))[0]
        return jnp.array([psi(0)(ev(ka_) + 2.0 * sc(pd.eq_params["kappa"]) * ev(kb_))])
    if sk == "ode":
        class Eq(ODE):
            def equation(self, t, ud, pd): return body(t, None, ud, pd)
        loss = SystemLossODE(u_dict=nets, dynamic_loss_dict={ka_: Eq(Tmax=1), kb_: Eq(Tmax=1)}, initial_condition_dict={ka_: (jnp.array(0.25), jnp.array([0.5])), kb_: (jnp.array(0.125), jnp.array([0.75]))},
                             loss_weights=LossWeightsODEDict(dyn_loss=1.0, initial_condition=1.0, observations=1.0), params_dict=params)
        batch = ODEBatch(temporal_batch=jnp.arange(1, B + 1) * 0.2)
    elif sk == "statio":
        class Eq(PDEStatio):
            def equation(self, x, ud, pd): return body(None, x, ud, pd)
        loss = SystemLossPDE(u_dict=nets, dynamic_loss_dict={ka_: Eq(Tmax=1), kb_: Eq(Tmax=1)}, loss_weights=LossWeightsPDEDict(), params_dict=params,
                             omega_boundary_fun_dict={ka_: (lambda dx: 0.5), kb_: None}, omega_boundary_condition_dict={ka_: "dirichlet", kb_: None})
        batch = PDEStatioBatch(inside_batch=jnp.arange(1, B + 1).reshape(B, 1) * 0.2, border_batch=jnp.arange(1, 2 * B + 1).reshape(B, 1, 2) * 0.15)
    else:
        class Eq(PDENonStatio):
            def equation(self, t, x, ud, pd): return body(t, x, ud, pd)
        loss = SystemLossPDE(u_dict=nets, dynamic_loss_dict={ka_: Eq(Tmax=1), kb_: Eq(Tmax=1)}, loss_weights=LossWeightsPDEDict(), params_dict=params,
                             initial_condition_fun_dict={ka_: (lambda x: 0.25 * x[0]), kb_: (lambda x: 0.5 * x[0])})
        batch = PDENonStatioBatch(times_x_inside_batch=jnp.arange(1, 2 * B + 1).reshape(B, 2) * 0.2, times_x_border_batch=None)
    if extra == "param":
        batch = eqx.tree_at(lambda b: b.param_batch_dict, batch, {"kappa": jnp.arange(1, B + 1).reshape(B, 1) * 0.3}, is_leaf=lambda x: x is None)
    if extra == "obs":
        obs = {ka_: {"pinn_in": jnp.arange(1, B * d_in + 1).reshape(B, d_in) * 0.125, "val": jnp.arange(1, B + 1).reshape(B, 1) * 0.25, "eq_params": {}}, kb_: None}
        batch = eqx.tree_at(lambda b: b.obs_batch_dict, batch, obs, is_leaf=lambda x: x is None)
    return loss, params, batch


def run_gen(cfg, R):
    import jinns.data._DataGenerators as DG
    kind, n, b = cfg["kind"], cfg["n"], cfg["b"]
    key = jax.random.PRNGKey(6)
    if kind == "times": g = DG.DataGeneratorODE(key, n, 0.0, 1.0, b)
    elif kind == "inside2": g = DG.CubicMeshPDEStatio(key=key, n=n, nb=None, omega_batch_size=b, omega_border_batch_size=None, dim=2, min_pts=(0.0, 0.0), max_pts=(1.0, 1.0))
    elif kind == "border": g = DG.CubicMeshPDEStatio(key=key, n=n, nb=4 * n, omega_batch_size=b, omega_border_batch_size=b, dim=2, min_pts=(0.0, 0.0), max_pts=(1.0, 1.0))
    elif kind == "nonstatio": g = DG.CubicMeshPDENonStatio(key=key, n=n, nb=2, nt=n, omega_batch_size=b, omega_border_batch_size=2, temporal_batch_size=b, dim=1,
                                                           min_pts=(0.0,), max_pts=(1.0,), tmin=0.0, tmax=1.0)
    elif kind == "param": g = DG.DataGeneratorParameter(key, n, b, param_ranges={"nu": (0.0, 1.0)}, user_data={"mu": jnp.arange(n, dtype=jnp.float32)})
    else: g = DG.DataGeneratorObservations(key, b, jnp.arange(n * 2, dtype=jnp.float32).reshape(n, 2), jnp.arange(n, dtype=jnp.float32).reshape(n, 1))
    # state after one draw (so that curr_idx is an array and a non-trivial state)
    with __import__("vf.stubs", fromlist=["stubbed"]).stubbed():
        g, _ = g.get_batch()
    name = f"gen/{kind}"
    R.note(functions=[f"jinns.data.{type(g).__name__}.get_batch called twice and under jit"], stubs_=["jax.random contracts"])
    def f(g):
        r1 = g.get_batch()
        mid = jax.tree_util.tree_map(lambda x: x, g)
        r2 = g.get_batch()
        rj = eqx.filter_jit(lambda gg: gg.get_batch())(g)
        return r1, r2, rj, mid
    tr = R.trace(name, f, (g,), key=f"gen:{kind}:raises", use_stubs=True, trace_only_is_violation=True, missing="example",
                 conc=lambda nm, l: nm.endswith("indices"))
    if tr is None: return
    def goals(A, O):
        (G0,) = A
        r1, r2, rj, mid = O
        G = []
        G += same_tree("drawing twice from the same generator returns the same (generator, batch)", r1, r2)
        G += same_tree("jit(get_batch) returns the same (generator, batch)", r1, rj)
        G += same_tree("args-unchanged: the generator passed in is not modified", mid, G0)
        return G
    def twins(A, O):
        (G0,) = A
        r1, r2, rj, mid = O
        return same_tree("the returned generator equals the generator passed in (no state advance)", r1[0], G0)
    R.check(name, tr, goals, twin_fn=twins, validate=False, key_fn=lambda prog, g: f"gen:{kind}:" + g.split(":")[0][:40])

"""C02 -- built-in dynamic losses equal the residual of their documented equation."""
import numpy as np
import jax, jax.numpy as jnp
from fractions import Fraction
from .. import terms as tm
from ..terms import const, add, mul, neg, sub, eq, div
from ..harness import Traced
from ..nets import mk_pinn, D, unit

INFO = dict(
    bounds=dict(quick="Poly(deg 2)+Ridge(H=1) fields; Fisher d in 1..2; GLV 2..3 species, both eq_params layouts, every key_main",
                thorough="Poly(deg 3)+Ridge(H<=2) fields; Fisher d in 1..3; GLV 2..3 species, both eq_params layouts, every key_main"),
    outside=["fields outside polynomial+ridge family", "floating-point rounding",
             "GLV: points where a species is exactly 0 (log form); Navier-Stokes: rho = 0",
             "Navier-Stokes per-network eq_params layout (the implementation reads rho, nu from the shared dict only)"],
    assumptions=["floats are mathematical reals", "a/b encoded a*inv(b) with b*inv(b)=1 (b != 0 assumed)",
                 "GLV oracle pins the implemented log form d/dt log u_i + Tmax(-r_i - sum_j a_ij u_j + c_i sum_j u_j) "
                 "(the docstring formula is inconsistent in its signs; no side is taken on the sign convention)"],
)


def configs(tier):
    q = tier == "quick"
    degH = [(2, 1)] if q else [(3, 1), (2, 2)]
    out = []
    for deg, H in degH:
        out.append(dict(eq="burgers", deg=deg, H=H))
        for d in ((1, 2) if q else (1, 2, 3)):
            out.append(dict(eq="fisher", d=d, deg=deg, H=H))
        out.append(dict(eq="ou", deg=deg, H=H))
        out.append(dict(eq="mass", deg=deg, H=H))
        out.append(dict(eq="ns", deg=deg, H=H))
    for ns in (2, 3):
        for layout in ("perkey", "shared"):
            for main in range(ns):
                out.append(dict(eq="glv", species=ns, layout=layout, main=main, deg=2, H=1))
            if ns == 3:   # keys_other listed in non-sorted order
                out.append(dict(eq="glv", species=ns, layout=layout, main=0, deg=2, H=1, rev=1))
            # population networks that read their OWN equation parameters (output scaled by the population's growth rate)
            out.append(dict(eq="glv", species=ns, layout=layout, main=ns - 1, deg=2, H=1, own=1))
    return out


def run(cfg, R):
    import jinns
    from jinns.parameters import Params, ParamsDict
    from jinns.loss import BurgerEquation, FisherKPP, OU_FPENonStatioLoss2D, GeneralizedLotkaVolterra, \
        MassConservation2DStatio, NavierStokes2DStatio
    e, deg, H = cfg["eq"], cfg["deg"], cfg["H"]
    Tmax = jnp.array(1.7)
    R.note(functions=["jinns.loss._DynamicLossAbstract._decorator_heteregeneous_params", "DynamicLoss._evaluate",
                      "jinns.utils._pinn.PINN.__call__/eval_nn"])
    one = const(1, "Real")

    if e in ("burgers", "fisher", "ou"):
        d = {"burgers": 1, "fisher": cfg.get("d", 1), "ou": 2}[e]
        u = mk_pinn(d + 1, 1, "nonstatio_PDE", deg=deg, H=H)
        if e == "burgers":
            dl = BurgerEquation(Tmax=Tmax); eqp = {"nu": jnp.array(0.3)}
            R.note(functions=["jinns.loss.BurgerEquation.equation[PINN]"])
        elif e == "fisher":
            dl = FisherKPP(Tmax=Tmax); eqp = {"D": jnp.array([0.3]), "r": jnp.array([0.6]), "g": jnp.array([0.9])}
            R.note(functions=["jinns.loss.FisherKPP.equation[PINN]", "jinns.loss._laplacian_rev"])
        else:
            dl = OU_FPENonStatioLoss2D(Tmax=Tmax)
            eqp = {"alpha": jnp.array([0.3, 0.4]), "mu": jnp.array([0.1, -0.2]), "sigma": jnp.array([0.5, 0.7])}
            R.note(functions=["jinns.loss.FPENonStatioLoss2D.equation[PINN]", "OU_FPENonStatioLoss2D.drift/diffusion/sigma_mat"])
        params = Params(nn_params=u.init_params(), eq_params=eqp)
        t = jnp.array([0.3]); x = jnp.arange(1, d + 1) * 0.25
        f = lambda dl, params, t, x: dl.evaluate(t, x, u, params)
        tr = Traced(f, (dl, params, t, x))

        def oracle(A, tmax_one=False, variant=None):
            dl_, p, t_, x_ = A
            z = [t_[0]] + list(x_); net = p.nn_params; q = p.eq_params
            T_ = one if tmax_one else dl_.Tmax[()]
            U = D(net, z); Ut = D(net, z, unit(d + 1, 0, 1))
            if e == "burgers":
                Ux = D(net, z, unit(2, 1, 1)); Uxx = D(net, z, unit(2, 1, 2))
                nu = q["nu"][()]
                if variant == "sign": nu = neg(nu)
                return [add(Ut, mul(T_, sub(mul(U, Ux), mul(nu, Uxx))))]
            if e == "fisher":
                lap = tm.ssum([D(net, z, unit(d + 1, 1 + j, 2)) for j in range(d)])
                r_, g_ = q["r"][0], q["g"][0]
                if variant == "swap": r_, g_ = g_, r_
                return [add(Ut, mul(T_, sub(neg(mul(q["D"][0], lap)), mul(U, sub(r_, mul(g_, U))))))]
            if e == "ou":
                al, mu, sg = q["alpha"], q["mu"], q["sigma"]
                o1 = const(0, "Real"); o2 = const(0, "Real")
                for i in range(2):
                    Ui = D(net, z, unit(3, 1 + i, 1)); Uii = D(net, z, unit(3, 1 + i, 2))
                    # d/dx_i [alpha_i (mu_i - x_i) u] = -alpha_i u + alpha_i (mu_i - x_i) u_i
                    o1 = add(o1, add(neg(mul(al[i], U)), mul(mul(al[i], sub(mu[i], x_[i])), Ui)))
                    s2 = mul(sg[i], sg[i]) if variant != "nohalf" else mul(const(2, "Real"), mul(sg[i], sg[i]))
                    o2 = add(o2, mul(mul(const(Fraction(1, 2), "Real"), s2), Uii))
                return [add(neg(Ut), mul(T_, add(neg(o1), o2)))]

        variant = {"burgers": "sign", "fisher": "swap", "ou": "nohalf"}[e]
        name = f"{e}" + (f"/d{d}" if e == "fisher" else "") + f"/deg{deg}H{H}"

    elif e in ("mass", "ns"):
        un = mk_pinn(2, 2, "statio_PDE", deg=deg, H=H)
        pn = mk_pinn(2, 1, "statio_PDE", deg=deg, H=H)
        x = jnp.array([0.25, 0.6])
        if e == "mass":
            dl = MassConservation2DStatio(nn_key="vel")
            u_dict = {"vel": un, "pres": pn}
            params = ParamsDict(nn_params={"vel": un.init_params(), "pres": pn.init_params()}, eq_params={"rho": jnp.array(1.3)})
            R.note(functions=["jinns.loss.MassConservation2DStatio.equation[PINN]", "jinns.loss._div_rev", "ParamsDict.extract_params"])
        else:
            dl = NavierStokes2DStatio(u_key="vel", p_key="pres")
            u_dict = {"vel": un, "pres": pn}
            params = ParamsDict(nn_params={"vel": un.init_params(), "pres": pn.init_params()},
                                eq_params={"rho": jnp.array(1.3), "nu": jnp.array(0.2)})
            R.note(functions=["jinns.loss.NavierStokes2DStatio.equation[PINN]", "_u_dot_nabla_times_u_rev", "_vectorial_laplacian", "ParamsDict.extract_params"])
        f = lambda dl, params, x: dl.evaluate(x, u_dict, params)
        tr = Traced(f, (dl, params, x))

        def oracle(A, tmax_one=False, variant=None):
            dl_, p, x_ = A
            z = list(x_); nu_ = p.nn_params["vel"]; np_ = p.nn_params["pres"]
            if e == "mass":
                if variant == "dyx":
                    return [add(D(nu_, z, (1, 0), 1), D(nu_, z, (0, 1), 0))]
                return [add(D(nu_, z, (1, 0), 0), D(nu_, z, (0, 1), 1))]
            rho, nu = p.eq_params["rho"][()], p.eq_params["nu"][()]
            out = []
            for c in range(2):
                adv = add(mul(D(nu_, z, None, 0), D(nu_, z, (1, 0), c)), mul(D(nu_, z, None, 1), D(nu_, z, (0, 1), c)))
                gp = D(np_, z, unit(2, c if variant != "gradp" else 1 - c, 1), 0)
                lap = add(D(nu_, z, (2, 0), c), D(nu_, z, (0, 2), c))
                out.append(add(add(adv, div(gp, rho)), neg(mul(nu, lap))))
            return out

        variant = {"mass": "dyx", "ns": "gradp"}[e]
        name = f"{e}/deg{deg}H{H}"

    elif e == "glv":
        ns, layout, main = cfg["species"], cfg["layout"], cfg["main"]
        keys = [f"s{k}" for k in range(ns)]
        own = cfg.get("own")
        nets = {k: mk_pinn(1, 1, "ODE", deg=deg, H=H, **(dict(ot=lambda i, o, p: o * p.eq_params["growth_rate"]) if own else {})) for k in keys}
        key_main = keys[main]; keys_other = [k for k in keys if k != key_main]
        if cfg.get("rev"): keys_other = keys_other[::-1]
        dl = GeneralizedLotkaVolterra(key_main=key_main, keys_other=keys_other, Tmax=Tmax)
        def eqp(i):
            return {"carrying_capacity": jnp.array(0.04 + i), "growth_rate": jnp.array(0.1 * (i + 1)),
                    "interactions": jnp.arange(1, ns + 1) * 0.01 * (i + 1)}
        eq_params = {k: eqp(i) for i, k in enumerate(keys)} if layout == "perkey" else eqp(0)
        params = ParamsDict(nn_params={k: nets[k].init_params() for k in keys}, eq_params=eq_params)
        t = jnp.array(0.4)
        f = lambda dl, params, t: dl.evaluate(t, nets, params)
        tr = Traced(f, (dl, params, t))
        R.note(functions=["jinns.loss.GeneralizedLotkaVolterra.equation", "ParamsDict.extract_params"])

        def oracle(A, tmax_one=False, variant=None):
            dl_, p, t_ = A
            z = [t_[()]]
            T_ = one if tmax_one else dl_.Tmax[()]
            q = p.eq_params[key_main] if layout == "perkey" else p.eq_params
            gr = (lambda k: (p.eq_params[k] if layout == "perkey" else p.eq_params)["growth_rate"][()]) if own else (lambda k: one)
            Us = {k: mul(D(p.nn_params[k], z), gr(k)) for k in keys}
            Um, dUm = Us[key_main], mul(D(p.nn_params[key_main], z, (1,)), gr(key_main))
            others = list(keys_other)
            inter = mul(q["interactions"][0], Um)
            for i, k in enumerate(others):
                kk = others[(i + 1) % len(others)] if (variant == "pairing" and len(others) > 1) else k
                idx = i + 1 if not (variant == "pairing" and len(others) == 1) else 0
                inter = add(inter, mul(q["interactions"][idx], Us[kk]))
            if variant == "pairing" and len(others) == 1:
                inter = add(mul(q["interactions"][1], Um), mul(q["interactions"][0], Us[others[0]]))
            carry = mul(q["carrying_capacity"][()], tm.ssum([Us[k] for k in keys]))
            return [add(div(dUm, Um), mul(T_, add(add(neg(q["growth_rate"][()]), neg(inter)), carry)))]

        variant = "pairing"
        name = f"glv/{ns}sp/{layout}/main{main}" + ("/rev" if cfg.get("rev") else "") + ("/own-eq-params" if own else "")
    else:
        raise ValueError(e)

    def goals(A, O):
        o = list(np.asarray(O, dtype=object).reshape(-1))
        w = oracle(A)
        assert len(o) == len(w), (len(o), len(w))
        return [(f"{e} residual[{c}] == documented expression", eq(o[c], w[c])) for c in range(len(w))]

    def twins(A, O):
        o = list(np.asarray(O, dtype=object).reshape(-1))
        tw = [(f"{e} residual[0] == expression with {variant} slip", eq(o[0], oracle(A, variant=variant)[0]))]
        if e in ("burgers", "fisher", "ou", "glv"):
            tw.append((f"{e} residual[0] == expression without Tmax", eq(o[0], oracle(A, tmax_one=True)[0])))
        return tw

    hint_spec = [(r"Tmax", "pos"), (r"rho", "pos")]
    R.check(name, tr, goals, twin_fn=twins, hint_spec=hint_spec, key_fn=lambda prog, g: f"{e}:" + prog)

"""C15 -- observation and parameter loaders keep rows aligned with the user's tables."""
import numpy as np
import jax, jax.numpy as jnp, equinox as eqx
from .. import terms as tm
from ..terms import const, eq, lt, le, bnot, band, bor, implies
from ..genutil import Codes, is_permutation, int_in

INFO = dict(
    bounds=dict(quick="tables with n <= 4 rows, 1-D and 2-D inputs, 1..2 value columns, 0..2 observed equation parameters, batch sizes 1..n, 3 get_batch calls (across a reshuffle); parameter loader: 2 keys, range/table combinations, table shapes (n,) and (n,1); multi-network loader with 2..3 networks of which one may have no observations",
                thorough="tables with n <= 6 rows, 4 get_batch calls (full-table batches b == n, which reshuffle on every call: 3 calls for n = 5, 2 calls for n = 6 -- the distinct-rows query over more composed symbolic permutations returned unknown and is outside the claim)"),
    outside=["tables larger than the bound", "the threefry stream (contracts as in C08/C09)", "sharded observation tables"],
    assumptions=["jax.random.choice/split/uniform replaced by their contracts", "all table entries are symbolic (distinct symbols), so a gather that mixes rows of different tables is satisfiable",
                 "'empty entry' for a network without observations is read as None or an empty dict"],
)


def configs(tier):
    out = []
    N = 4 if tier == "quick" else 6
    ncalls = 3 if tier == "quick" else 4
    for n in range(2, N + 1):
        for b in sorted({1, 2, n}):
            if b > n: continue
            for din in (1, 2):
                for neq in (0, 1, 2):
                    if tier == "quick" and (n + b + din + neq) % 2: continue
                    # a full-table batch reshuffles on every call: each call composes one more symbolic permutation, and the
                    # distinct-rows query is out of reach beyond 3 compositions of S_5 / 2 of S_6 (stated bound)
                    nc = ncalls if (b < n or n <= 4) else (3 if n == 5 else 2)
                    out.append(dict(kind="obs", n=n, b=b, din=din, in1d=(din == 1 and neq == 1), nval=1 + (n % 2), neq=neq, ncalls=nc, x64=False))
    # the sharding option (tables placed on a device): values and row alignment are unchanged
    out.append(dict(kind="obs", n=3, b=2, din=2, in1d=False, nval=1, neq=2, ncalls=ncalls, shard=True, x64=False))
    for n in (3, N):
        for b in (1, 2):
            for shape in ("n", "n1"):
                for combo in ("table_only", "table_and_range", "mixed"):
                    out.append(dict(kind="param", n=n, b=b, shape=shape, combo=combo, ncalls=ncalls, x64=False))
    out.append(dict(kind="param", n=3, b=2, shape="n", combo="mixed", method="grid", ncalls=ncalls, x64=False))      # regular grid on the key's own range
    for nnet in (2, 3):
        for none_at in (None, 0, nnet - 1):
            out.append(dict(kind="multi", n=3, b=2, nnet=nnet, none_at=none_at, ncalls=ncalls, x64=False))
        # the three user dictionaries list the networks in DIFFERENT insertion orders (tables are matched by network name)
        out.append(dict(kind="multi", n=3, b=2, nnet=nnet, none_at=None, orders=True, ncalls=ncalls, x64=False))
    return out


def run(cfg, R):
    import jinns.data._DataGenerators as DG
    kind, n, b, ncalls = cfg["kind"], cfg["n"], cfg["b"], cfg["ncalls"]
    key = jax.random.PRNGKey(4)
    R.note(stubs_=["jax.random.split/choice/uniform contracts"])

    def aligned(label, cds, bt, tables_b, n_rows):
        """every batch row comes from ONE table row: all columns of all parts carry the same row code (!= -1) and their own column"""
        cs = []
        for j in range(n_rows):
            ref = cds[0].row_of(tables_b[0][j, 0])
            cs.append(bnot(eq(ref, const(-1, "Int"))))
            for cd, tb in zip(cds, tables_b):
                for c in range(tb.shape[1]):
                    cs.append(eq(cd.row_of(tb[j, c]), ref)); cs.append(eq(cd.col_of(tb[j, c]), const(c, "Int")))
        return (label, tm.conj(cs))

    if kind == "obs":
        din, nval, neq, in1d = cfg["din"], cfg["nval"], cfg["neq"], cfg["in1d"]
        tin = (jnp.arange(n * din, dtype=jnp.float32).reshape(n, din) if not in1d else jnp.arange(n, dtype=jnp.float32)) * 0.5 + 0.25
        tval = jnp.arange(n * nval, dtype=jnp.float32).reshape(n, nval) + 100.0
        eqnames = ["nu", "alpha"][:neq]                      # insertion order is not alphabetical
        teq = [(jnp.arange(n, dtype=jnp.float32) + 1000.0 * (k + 1)) if k == 0 else (jnp.arange(n, dtype=jnp.float32).reshape(n, 1) + 1000.0 * (k + 1)) for k in range(neq)]
        def f(key, tin, tval, teq):
            d_ = {}
            for nm, tb in zip(eqnames, teq): d_[nm] = tb       # the user's dict, built in the user's order
            if cfg.get("shard"):
                g = DG.DataGeneratorObservations(key, b, tin, tval, d_, sharding_device=jax.sharding.SingleDeviceSharding(jax.devices()[0]))
            else:
                g = DG.DataGeneratorObservations(key, b, tin, tval, d_)
            outs = []
            for _ in range(ncalls):
                g, bt = g.get_batch(); outs.append(bt)
            return outs
        name = f"obs/n{n}/b{b}/in{din}{'-1d' if in1d else ''}/val{nval}/eq{neq}" + ("/sharding_device" if cfg.get("shard") else "")
        R.note(functions=["jinns.data.DataGeneratorObservations.__post_init__/obs_batch"])
        tr = R.trace(name, f, (key, tin, tval, teq), key="obs:raises", use_stubs=True, missing="example")
        if tr is None: return
        def goals(A, O):
            key_, tin_, tval_, teq_l = A
            teq_ = dict(zip(eqnames, teq_l))
            tin2 = np.asarray(tin_, dtype=object).reshape(n, -1); tv2 = np.asarray(tval_, dtype=object).reshape(n, -1)
            cds = [Codes(tin2), Codes(tv2)] + [Codes(np.asarray(teq_[k], dtype=object).reshape(n, 1)) for k in sorted(teq_)]
            G = []
            for c, bt in enumerate(O):
                G.append((f"batch {c} shapes", const(tuple(bt["pinn_in"].shape) == (b, din) and tuple(bt["val"].shape) == (b, nval)
                                                     and all(tuple(bt["eq_params"][k].shape) == (b, 1) for k in teq_), "Bool")))
                parts = [bt["pinn_in"], bt["val"]] + [bt["eq_params"][k] for k in sorted(teq_)]
                G.append(aligned(f"batch {c}: input, value and every observed parameter of a row come from the same table row", cds, bt, parts, b))
                rows = [cds[0].row_of(bt["pinn_in"][j, 0]) for j in range(b)]
                G.append((f"batch {c}: rows are distinct table rows", tm.conj([bnot(eq(rows[i], rows[j])) for i in range(b) for j in range(i + 1, b)])))
            return G
        def twins(A, O):
            key_, tin_, tval_, teq_l = A
            cdv = Codes(np.asarray(tval_, dtype=object).reshape(n, -1))
            return [("batch 0 is always the first b table rows in order", tm.conj([eq(cdv.row_of(O[0]["val"][j, 0]), const(j, "Int")) for j in range(b)]))]
        R.check(name, tr, goals, twin_fn=twins, validate=False, key_fn=lambda p, g: "obs:" + g.split(":")[-1][:50])
        return

    if kind == "param":
        shape, combo = cfg["shape"], cfg["combo"]; method = cfg.get("method", "uniform")
        tab = jnp.arange(n, dtype=jnp.float32) * 0.5 + 7.0
        tab = tab if shape == "n" else tab[:, None]
        lo = jnp.array([0.0, 2.0]); hi = jnp.array([1.0, 3.5])
        def f(key, tab, lo, hi):
            if combo == "table_only":
                g = DG.DataGeneratorParameter(key, n, b, user_data={"nu": tab}, method=method)
            elif combo == "table_and_range":     # the table has priority over the range given for the same key
                g = DG.DataGeneratorParameter(key, n, b, param_ranges={"nu": (lo[0], hi[0])}, user_data={"nu": tab}, method=method)
            else:
                g = DG.DataGeneratorParameter(key, n, b, param_ranges={"mu": (lo[1], hi[1])}, user_data={"nu": tab}, method=method)
            g0 = g; outs = []
            for _ in range(ncalls):
                g, bt = g.get_batch(); outs.append(bt)
            return g0.param_n_samples, outs
        name = f"param/n{n}/b{b}/{shape}/{combo}" + ("/grid" if method == "grid" else "")
        R.note(functions=["jinns.data.DataGeneratorParameter.__post_init__/generate_data/param_batch"])
        tr = R.trace(name, f, (key, tab, lo, hi), key=f"param:user_data shape ({'n,' if shape == 'n' else 'n,1'}):raises", use_stubs=True, missing="example")
        if tr is None: return
        def assume(A, O):
            key_, tab_, lo_, hi_ = A
            return [le(lo_[j], hi_[j]) for j in range(2)]
        def goals(A, O):
            key_, tab_, lo_, hi_ = A
            store, outs = O
            cd = Codes(np.asarray(tab_, dtype=object).reshape(n, 1))
            G = [("stored samples[nu] has shape (n,1)", const(tuple(store["nu"].shape) == (n, 1), "Bool")),
                 ("stored samples[nu] are a permutation of the user table (table has priority)", is_permutation([cd.row_of(e) for e in store["nu"].flat], n))]
            for c, bt in enumerate(outs):
                G.append((f"batch {c}[nu] holds b distinct rows of the user table",
                          band(tm.conj([bnot(eq(cd.row_of(e), const(-1, "Int"))) for e in bt["nu"].flat]),
                               tm.conj([bnot(eq(cd.row_of(bt["nu"][i, 0]), cd.row_of(bt["nu"][j, 0]))) for i in range(b) for j in range(i + 1, b)]))))
                if combo == "mixed":
                    G.append((f"batch {c}[mu] lies in mu's own range", tm.conj([band(le(lo_[1], e), le(e, hi_[1])) for e in bt["mu"].flat])))
            return G
        def twins(A, O):
            key_, tab_, lo_, hi_ = A
            store, outs = O
            return [("stored samples[nu] lie in the range given for nu", tm.conj([band(le(lo_[0], e), le(e, hi_[0])) for e in store["nu"].flat]))]
        R.check(name, tr, goals, twin_fn=twins, extra_assume_fn=assume, validate=False,
                hint_spec=[(r"a_2_", ("alt", [("range", -3, -1), ("range", 1, 2), ("range", -7, -5)])), (r"a_3_", ("alt", [("range", 1, 3), ("range", 2.5, 4), ("range", -4, -2)]))],
                key_fn=lambda p, g: "param:" + g[:40])
        return

    if kind == "multi":
        nnet, none_at = cfg["nnet"], cfg["none_at"]
        names = [f"u{k}" for k in range(nnet)]
        tins = {k: (None if i == none_at else jnp.arange(n * 2, dtype=jnp.float32).reshape(n, 2) + 10.0 * i) for i, k in enumerate(names)}
        tvals = {k: (None if i == none_at else jnp.arange(n, dtype=jnp.float32).reshape(n, 1) + 100.0 * (i + 1)) for i, k in enumerate(names)}
        teqs = {k: ({} if i == none_at else {"nu": jnp.arange(n, dtype=jnp.float32).reshape(n, 1) + 1000.0 * (i + 1)}) for i, k in enumerate(names)}
        def f(key, tins, tvals, teqs):
            if cfg.get("orders"):      # rebuilt in-trace (the harness' flattening sorted them): inputs reversed, values rotated, parameters in order
                tins = {k: tins[k] for k in reversed(names)}
                tvals = {k: tvals[k] for k in names[1:] + names[:1]}
                teqs = {k: teqs[k] for k in names}
            g = DG.DataGeneratorObservationsMultiPINNs(b, tins, tvals, observed_eq_params_dict=teqs, key=key)
            outs = []
            for _ in range(ncalls):
                g, bt = g.get_batch(); outs.append(bt)
            return outs
        name = f"multi/nets{nnet}/none{none_at}" + ("/dict-orders-differ" if cfg.get("orders") else "")
        R.note(functions=["jinns.data.DataGeneratorObservationsMultiPINNs.__post_init__/obs_batch"])
        tr = R.trace(name, f, (key, tins, tvals, teqs), key="multi:raises", use_stubs=True, missing="example")
        if tr is None: return
        def goals(A, O):
            key_, tins_, tvals_, teqs_ = A
            G = []
            for c, bt in enumerate(O):
                G.append((f"batch {c}: one entry per network", const(set(bt.keys()) == set(names), "Bool")))
                for i, k in enumerate(names):
                    if i == none_at:
                        G.append((f"batch {c}[{k}]: empty entry for a network without observations", const(bt[k] is None or bt[k] == {}, "Bool")))
                        continue
                    cds = [Codes(np.asarray(tins_[k], dtype=object)), Codes(np.asarray(tvals_[k], dtype=object)), Codes(np.asarray(teqs_[k]["nu"], dtype=object))]
                    parts = [bt[k]["pinn_in"], bt[k]["val"], bt[k]["eq_params"]["nu"]]
                    G.append(aligned(f"batch {c}[{k}]: rows aligned with network {k}'s own tables", cds, bt[k], parts, b))
            return G
        def twins(A, O):
            key_, tins_, tvals_, teqs_ = A
            ks = [k for i, k in enumerate(names) if i != none_at]
            if len(ks) < 2: return []
            cd = Codes(np.asarray(tvals_[ks[1]], dtype=object))
            return [(f"batch 0[{ks[0]}] values come from {ks[1]}'s table", tm.conj([bnot(eq(cd.row_of(O[0][ks[0]]["val"][j, 0]), const(-1, "Int"))) for j in range(b)]))]
        R.check(name, tr, goals, twin_fn=twins, validate=False, key_fn=lambda p, g: "multi:" + g.split(":")[-1][:50])

"""C14 -- space-time batches are exact cartesian products (or exact pairings)."""
import numpy as np
import jax, jax.numpy as jnp, equinox as eqx
from .. import terms as tm
from ..terms import const, eq, lt, le, bnot, band, bor, implies
from ..genutil import int_in

INFO = dict(
    bounds=dict(quick="temporal / interior / border batch sizes in 1..3 (stores <= 4), d in {1,2}, both product modes, constructor state and an arbitrary valid state (symbolic batch indices, arbitrary permutations)",
                thorough="batch sizes 1..3 with stores up to 6, d in {1,2}, both modes, both states"),
    outside=["generator batch sizes above 3 (the product routine alone: second operand up to 64 rows quick / every size up to 128 and 200, 256, 500, 1000 thorough)", "the threefry stream (contracts of jax.random.* as in C08/C09)"],
    assumptions=["jax.random.choice/split/uniform replaced by their contracts", "valid state: every batch index is the constructor sentinel or a multiple of its batch size inside its store"],
)
INT32_MAX = 2 ** 31 - 1


def configs(tier):
    out = []
    for d in (1, 2):
        for cart in (True, False):
            for (bt, bx, bb) in ((1, 1, 1), (2, 3, 2), (3, 2, 3), (2, 2, 2), (3, 3, 3), (1, 3, 2)):
                if not cart and (bt != bx or (d == 2 and bt != bb)): continue
                for state in ("ctor", "any"):
                    n = 4 if tier == "quick" else 6
                    out.append(dict(d=d, cart=cart, bt=bt, bx=bx, bb=bb, n=n, state=state, x64=False))
    for (n1, d1, n2, d2) in ((1, 1, 1, 1), (2, 1, 3, 2), (3, 2, 2, 1), (3, 1, 3, 3)):
        out.append(dict(mcp=True, n1=n1, d1=d1, n2=n2, d2=d2, x64=False))
    # the product routine itself at larger (realistic) batch sizes: the row <-> (i, j) index arithmetic is the same code for every size but
    # its values are not (rounding, clamping): all sizes of the second operand up to the bound, three rows in the first
    big = (5, 7, 10, 13, 32, 41, 47, 50, 61, 64) if tier == "quick" else tuple(range(4, 129))
    for n2 in big:
        out.append(dict(mcp=True, n1=3, d1=1, n2=n2, d2=1, x64=False))
    if tier == "thorough":
        for n2 in (200, 256, 500, 1000): out.append(dict(mcp=True, n1=2, d1=1, n2=n2, d2=2, x64=False))
    return out


def run(cfg, R):
    from jinns.data._DataGenerators import CubicMeshPDENonStatio, make_cartesian_product
    if cfg.get("mcp"):
        n1, d1, n2, d2 = cfg["n1"], cfg["d1"], cfg["n2"], cfg["d2"]
        b1 = jnp.arange(n1 * d1, dtype=jnp.float32).reshape(n1, d1); b2 = jnp.arange(n2 * d2, dtype=jnp.float32).reshape(n2, d2) + 100
        from ..harness import Traced
        tr = R.trace(f"make_cartesian_product/{n1}x{d1}/{n2}x{d2}", make_cartesian_product, (b1, b2), key="mcp:raises")
        if tr is None: return
        R.note(functions=["jinns.data._DataGenerators.make_cartesian_product"])
        def goals(A, O):
            a, b = A
            g = [("shape == (n1*n2, d1+d2)", const(tuple(O.shape) == (n1 * n2, d1 + d2), "Bool"))]
            cs = []
            for i in range(n1):
                for j in range(n2):
                    row = O[i * n2 + j]
                    cs += [eq(row[c], a[i, c]) for c in range(d1)] + [eq(row[d1 + c], b[j, c]) for c in range(d2)]
            g.append(("row i*n2+j == (b1[i], b2[j]) (first argument major)", tm.conj(cs)))
            return g
        def twins(A, O):
            a, b = A
            if n1 == 1 or n2 == 1: return []
            return [("row j*n1+i == (b1[i], b2[j]) (second argument major)",
                     tm.conj([eq(O[j * n1 + i][0], a[i, 0]) for i in range(n1) for j in range(n2)]))]
        R.check(f"make_cartesian_product/{n1}x{d1}/{n2}x{d2}", tr, goals, twin_fn=twins, key_fn=lambda p, g: "mcp")
        return

    d, cart, bt, bx, bb, n, state = (cfg[k] for k in ("d", "cart", "bt", "bx", "bb", "n", "state"))
    key = jax.random.PRNGKey(2)
    g = CubicMeshPDENonStatio(key=key, n=n, nb=(2 if d == 1 else 4 * n), nt=n, omega_batch_size=bx,
                              omega_border_batch_size=(2 if d == 1 else bb), temporal_batch_size=bt, dim=d,
                              min_pts=(0.0,) * d, max_pts=(1.0,) * d, tmin=0.0, tmax=1.0, method="uniform", cartesian_product=cart)
    R.note(functions=["jinns.data.CubicMeshPDENonStatio.get_batch", "inside_batch", "border_batch", "temporal_batch", "make_cartesian_product"],
           stubs_=["jax.random.split/choice contracts"])
    idx_fields = [lambda m: m.curr_omega_idx, lambda m: m.curr_time_idx] + ([lambda m: m.curr_omega_border_idx] if d == 2 else [])
    sizes = [(bx, n), (bt, n)] + ([(bb, n)] if d == 2 else [])
    if state == "any":
        for fld in idx_fields:
            g = eqx.tree_at(fld, g, jnp.asarray(fld(g), dtype=jnp.int32))

    def f(g):
        new, x = g.inside_batch()
        new, dx = new.border_batch()
        new, t = new.temporal_batch()
        new2, batch = g.get_batch()
        return x, dx, t, batch, new, new2

    name = f"d{d}/{'cart' if cart else 'pair'}/bt{bt}bx{bx}bb{bb}/{state}"
    tr = R.trace(name, f, (g,), key=f"d={d}:{'cart' if cart else 'pair'}:raises", use_stubs=True, missing="example")
    if tr is None: return
    nb_rows = 1 if d == 1 else bb

    def assume(A, O):
        if state != "any": return []
        (G,) = A
        out = []
        for fld, (b, nn) in zip(idx_fields, sizes):
            out.append(int_in(fld(G)[()], [INT32_MAX - b - 1] + [m * b for m in range(nn) if m * b < nn]))
        return out

    def goals(A, O):
        x, dx, t, batch, new, new2 = O
        txi, txb = batch.times_x_inside_batch, batch.times_x_border_batch
        G = []
        if cart:
            G.append(("interior shape == (bt*bx, 1+d)", const(tuple(txi.shape) == (bt * bx, 1 + d), "Bool")))
            cs = []
            for i in range(bt):
                for j in range(bx):
                    row = txi[i * bx + j]
                    cs.append(eq(row[0], t[i])); cs += [eq(row[1 + c], x[j, c]) for c in range(d)]
            G.append(("interior row i*bx+j == (t_i, x_j): time-major product, column 0 is time", tm.conj(cs)))
        else:
            G.append(("interior shape == (b, 1+d)", const(tuple(txi.shape) == (bt, 1 + d), "Bool")))
            cs = []
            for i in range(bt):
                cs.append(eq(txi[i, 0], t[i])); cs += [eq(txi[i, 1 + c], x[i, c]) for c in range(d)]
            G.append(("interior row i == (t_i, x_i): pairing, column 0 is time", tm.conj(cs)))
        if cart or d == 1:
            G.append(("border shape == (bt*nb, 1+d, 2d)", const(tuple(txb.shape) == (bt * nb_rows, 1 + d, 2 * d), "Bool")))
            cs = []
            for fct in range(2 * d):
                for i in range(bt):
                    for j in range(nb_rows):
                        row = txb[i * nb_rows + j, :, fct]
                        cs.append(eq(row[0], t[i])); cs += [eq(row[1 + c], dx[j, c, fct]) for c in range(d)]
            G.append(("border row i*nb+j of facet f == (t_i, dx[j,:,f]): time-major product per facet", tm.conj(cs)))
        else:
            G.append(("border shape == (b, 1+d, 2d)", const(tuple(txb.shape) == (bt, 1 + d, 2 * d), "Bool")))
            cs = []
            for fct in range(2 * d):
                for i in range(bt):
                    cs.append(eq(txb[i, 0, fct], t[i])); cs += [eq(txb[i, 1 + c, fct], dx[i, c, fct]) for c in range(d)]
            G.append(("border row i of facet f == (t_i, dx[i,:,f]): pairing per facet", tm.conj(cs)))
        # get_batch advances the generator exactly like the three public methods
        l1 = jax.tree_util.tree_leaves(new, is_leaf=lambda z: isinstance(z, np.ndarray)); l2 = jax.tree_util.tree_leaves(new2, is_leaf=lambda z: isinstance(z, np.ndarray))
        same = []
        for a_, b_ in zip(l1, l2):
            if isinstance(a_, np.ndarray):
                same += [eq(p, q) for p, q in zip(a_.flat, b_.flat)]
        G.append(("generator returned by get_batch == generator after inside/border/temporal batch", tm.conj(same)))
        return G

    def twins(A, O):
        x, dx, t, batch, new, new2 = O
        txi = batch.times_x_inside_batch
        if cart and bt > 1 and bx > 1:
            return [("interior row j*bt+i == (t_i, x_j) (space-major)", tm.conj([eq(txi[j * bt + i, 0], t[i]) for i in range(bt) for j in range(bx)]))]
        return [("interior column 1 is time", tm.conj([eq(txi[i, 1], t[min(i, bt - 1)]) for i in range(min(bt, txi.shape[0]))]))]

    R.check(name, tr, goals, twin_fn=twins, extra_assume_fn=assume, validate=False,
            key_fn=lambda prog, gname: f"d={d}:{'cart' if cart else 'pair'}:{gname.split(':')[0][:40]}")

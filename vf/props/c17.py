"""C17 -- refinement adds the highest-residual candidates and keeps active points.
One refinement step from a pre-state whose store CONTENTS are arbitrary symbols and whose counters correspond to J0
earlier steps (active points occupy slots [0, n_eff), p != 0 exactly there), followed by a reshuffling batch draw."""
import numpy as np
from fractions import Fraction
import jax, jax.numpy as jnp, equinox as eqx
from .. import terms as tm
from ..terms import const, eq, lt, le, bnot, band, bor, implies
from ..genutil import Codes, is_permutation, exactly_one
from .c16 import build

INFO = dict(
    bounds=dict(quick="one refinement step after J0 in {0, 1} earlier steps, 3-4 candidates of which 2 are selected, stores of 8-9 points with nt_start != n_start, followed by one reshuffling get_batch; ODE, stationary (d=2) and non-stationary (d=1, product domain) generators",
                thorough="J0 in {0, 1, 2}, 5 candidates / 2 selected"),
    outside=["more candidates / selected points", "the threefry stream", "floating-point rounding of the residuals"],
    assumptions=["jax.random.uniform contract (candidates = min + (max-min)*U, 0 <= U < 1); jax.random.choice with p: a permutation in which no zero-probability entry precedes a positive one (behaviour of JAX's Gumbel top-k that RAR relies on)",
                 "argsort / top_k = a permutation that sorts its keys (declarative contract)", "pre-state invariant: p != 0 exactly on slots [0, n_start + J0*selected)",
                 "candidates and their residuals are recomputed in the harness from the same key with the real sampling and residual code (no source hook needed)"],
)


def configs(tier):
    out = []
    for kind in ("ode", "statio", "nonstatio"):
        for J0 in ((0, 1) if tier == "quick" else (0, 1, 2)):
            out.append(dict(kind=kind, J0=J0, d=(2 if kind == "statio" else 1), x64=True))
        if kind == "nonstatio":       # the time store is full (the space store is not): a further step must not touch anything
            out.append(dict(kind=kind, J0=2, d=1, time_first=True, full=True, x64=True))
        if kind != "nonstatio":       # residual with two components: ranked by the sum of squares
            out.append(dict(kind=kind, J0=0, d=(2 if kind == "statio" else 1), ncomp=2, x64=True))
        # a generator that already refined (J0 = 1) is handed to a new solve(): init_rar runs again, then the next step
        out.append(dict(kind=kind, J0=1, d=(2 if kind == "statio" else 1), reinit=True, x64=True))
    # a space-time dependent (heterogeneous) equation parameter: candidates are ranked by the residual the loss minimises
    out.append(dict(kind="nonstatio", J0=0, d=1, hetero=True, x64=True))
    # a system of two ODEs: ranked by the sum over the equations of the squared residuals
    for J0 in (0, 1):
        out.append(dict(kind="ode", J0=J0, d=1, system=True, x64=True))
    return out


def run(cfg, R):
    from jinns.solver._rar import init_rar, trigger_rar
    kind, J0, d = cfg["kind"], cfg["J0"], cfg["d"]
    ncomp = cfg.get("ncomp", 1)
    full = cfg.get("full", False)
    system = cfg.get("system", False)
    data, loss, params, sizes = build(kind, 0, 1, d, ncomp=ncomp, time_first=cfg.get("time_first", False), system=system, hetero=cfg.get("hetero", False))
    # a pre-state after J0 steps in which some store cannot hold another full set: the step must leave everything untouched
    full = full or any(n0 + (J0 + 1) * sel > ntot for ntot, n0, sel in sizes.values())
    data, t_, f_ = init_rar(data)
    stubs_ = __import__("vf.stubs", fromlist=["stubbed"])
    # reach the pre-state counters/probabilities by J0 real steps (concrete), then make the store contents symbolic
    with stubs_.stubbed():
        for i in range(J0):
            loss, params, data = trigger_rar(i, loss, params, data, t_, f_)
        if cfg.get("reinit"):
            data, t_, f_ = init_rar(data)          # what a second jinns.solve call does with the returned generator
    R.note(functions=["jinns.solver._rar.rar_step_true (via trigger_rar)", "jinns.data.*.get_batch with p (reshuffle)", "DynamicLoss.evaluate (residuals of the candidates)"],
           stubs_=["jax.random contracts incl. zero-probability-last for choice with p", "argsort/top_k -> sorted-permutation contract"])
    rp = {k: int(v) for k, v in data.rar_parameters.items()}

    def f(data, loss, params):
        i = J0
        pre = data
        # candidates and residuals recomputed from the key exactly as rar_step_true draws them
        if kind == "ode":
            _, sub = jax.random.split(data.key)
            cands = {"times": data.sample_in_time_domain(sub, rp["sample_size_times"])}
            if system:
                res = jnp.concatenate([jax.vmap(lambda t, k=k: loss.dynamic_loss_dict[k].evaluate(t, loss.u_dict, params))(cands["times"]) for k in loss.dynamic_loss_dict], axis=-1)
            else:
                res = jax.vmap(lambda t: loss.dynamic_loss.evaluate(t, loss.u, params))(cands["times"])
        elif kind == "statio":
            _, *subs = jax.random.split(data.key, data.dim + 1)
            cands = {"omega": data.sample_in_omega_domain(subs if data.dim > 1 else subs[0], rp["sample_size_omega"])}
            res = jax.vmap(lambda x: loss.dynamic_loss.evaluate(x, loss.u, params))(cands["omega"])
        else:
            nk, sub = jax.random.split(data.key)
            ct = data.sample_in_time_domain(sub, rp["sample_size_times"])
            nk, *subs = jax.random.split(nk, data.dim + 1)
            cx = data.sample_in_omega_domain(subs if data.dim > 1 else subs[0], rp["sample_size_omega"])
            cands = {"times": ct, "omega": cx}
            res = jax.vmap(lambda t: jax.vmap(lambda x: loss.dynamic_loss.evaluate(t[None], x, loss.u, params))(cx))(ct)
        loss2, params2, post = trigger_rar(i, loss, params, data, t_, f_)
        # one batch draw after the step (reshuffles: the index was advanced to the end of the epoch)
        idxf = {"ode": ["curr_time_idx"], "statio": ["curr_omega_idx"], "nonstatio": ["curr_omega_idx", "curr_time_idx"]}[kind]
        big = post
        for fld in idxf:
            big = eqx.tree_at(lambda m, fld=fld: getattr(m, fld), big, 2 ** 30)
        shuf, batch = big.get_batch()
        return cands, res, post, shuf

    name = f"{kind}/J0={J0}" + (f"/ncomp{ncomp}" if ncomp > 1 else "") + ("/store-full" if full else "") + ("/init_rar-again" if cfg.get("reinit") else "") + ("/system-2eq" if system else "") + ("/heterogeneous-kappa" if cfg.get("hetero") else "")
    # symbolic: the store contents, the PRNG key, the network and the equation parameters; everything else of the generator
    # (counters, probability masks, sizes, domain bounds -- arrays after a jitted step) is the concrete pre-state
    conc = lambda nm, l: nm.startswith("a_0_") and nm not in ("a_0_times", "a_0_omega", "a_0_key")
    tr = R.trace(name, f, (data, loss, params), key=f"{kind}:raises", use_stubs=True, conc=conc, missing="example")
    if tr is None: return

    def stores(D_):
        out = {}
        if kind in ("ode", "nonstatio"): out["times"] = (D_.times, D_.p_times)
        if kind in ("statio", "nonstatio"): out["omega"] = (D_.omega, D_.p_omega)
        return out

    def goals_full(A, O):
        pre = A[0]
        cands, res, post, shuf = O
        G = []
        for key_, (ntot, n0, sel) in sizes.items():
            S0, p0 = stores(pre)[key_]; S1, p1 = stores(post)[key_]
            G.append((f"{key_}: a store that cannot hold another full set is left untouched (active points are not overwritten)",
                      tm.conj([eq(a, b) for a, b in zip(np.asarray(S1, dtype=object).flat, np.asarray(S0, dtype=object).flat)])))
            G.append((f"{key_}: sampling probabilities unchanged when no step can be taken", tm.conj([eq(a, b) for a, b in zip(p1, p0)])))
        return G

    def goals(A, O):
        if full: return goals_full(A, O)
        pre = A[0]
        cands, res, post, shuf = O
        G = []
        res2 = np.asarray(res, dtype=object)
        res2 = np.vectorize(lambda t: tm.mul(t, t), otypes=[object])(res2.reshape(res2.shape[:2] if kind == "nonstatio" else (res2.shape[0], -1)))
        if kind != "nonstatio":
            res2 = np.array([tm.ssum(list(row)) for row in res2], dtype=object)         # squared norm over components
        for key_, (ntot, n0, sel) in sizes.items():
            S0, p0 = stores(pre)[key_]; S1, p1 = stores(post)[key_]; S2, p2 = stores(shuf)[key_]
            S0 = np.asarray(S0, dtype=object).reshape(ntot, -1); S1 = np.asarray(S1, dtype=object).reshape(ntot, -1); S2 = np.asarray(S2, dtype=object).reshape(ntot, -1)
            n_eff = n0 + J0 * sel
            G.append((f"{key_}: points active before the step are unchanged (slots [0, n_eff))", tm.conj([eq(a, b) for a, b in zip(S1[:n_eff].flat, S0[:n_eff].flat)])))
            G.append((f"{key_}: only the next `selected` inactive slots are written", tm.conj([eq(a, b) for a, b in zip(S1[n_eff + sel:].flat, S0[n_eff + sel:].flat)])))
            nz = [bool(t.val != 0) for t in p1] if all(t.is_const for t in p1) else None
            G.append((f"{key_}: after the step p != 0 exactly on slots [0, n_eff + selected)", const(nz is not None and nz == [k < n_eff + sel for k in range(ntot)], "Bool")))
            C = np.asarray(cands[key_], dtype=object).reshape(len(cands[key_]), -1)
            nc = C.shape[0]
            cd = Codes(C)
            sel_idx = [cd.row_of(S1[n_eff + q, 0]) for q in range(sel)]
            G.append((f"{key_}: every added point is one of this step's candidates (whole rows)",
                      tm.conj([band(bnot(eq(sel_idx[q], const(-1, "Int"))), tm.conj([band(eq(cd.row_of(S1[n_eff + q, c]), sel_idx[q]), eq(cd.col_of(S1[n_eff + q, c]), const(c, "Int"))) for c in range(C.shape[1])]))
                               for q in range(sel)])))
            pick = lambda arr, idx: tm.ite(eq(idx, const(0, "Int")), arr[0], pick_rest(arr, idx, 1))
            def pick_rest(arr, idx, k):
                if k == len(arr) - 1: return arr[k]
                return tm.ite(eq(idx, const(k, "Int")), arr[k], pick_rest(arr, idx, k + 1))
            if kind != "nonstatio":
                G.append((f"{key_}: the added points are distinct candidates", tm.conj([bnot(eq(sel_idx[a], sel_idx[b])) for a in range(sel) for b in range(a + 1, sel)])))
                r2 = list(res2)
                for q in range(sel):
                    rq = pick(r2, sel_idx[q])
                    cs = []
                    for j in range(nc):
                        in_sel = tm.disj([eq(s_, const(j, "Int")) for s_ in sel_idx])
                        cs.append(bor(in_sel, le(r2[j], rq)))
                    G.append((f"{key_}: added point {q} has a squared residual >= that of every unselected candidate", tm.conj(cs)))
            else:
                # product domain: the added coordinates are those of the top pairs (largest squared residual), in order
                ax = 0 if key_ == "times" else 1
                other = "omega" if key_ == "times" else "times"
                # for each added coordinate q there is a pair (its row, some column) whose squared residual dominates every pair outside the top-q set:
                # checked in the weaker, order-free form: some pair on the added row/column is >= every pair whose row AND column were not added
                r2 = res2
                for q in range(sel):
                    line = [pick([r2[i, j] if ax == 0 else r2[j, i] for i in range(r2.shape[ax])], sel_idx[q]) for j in range(r2.shape[1 - ax])]
                    best_on_line = line
                    for i in range(r2.shape[ax]):
                        row_added = tm.disj([eq(s_, const(i, "Int")) for s_ in sel_idx])
                        for j in range(r2.shape[1 - ax]):
                            pair = r2[i, j] if ax == 0 else r2[j, i]
                            # (one query per pair: the conjunction over a candidate's pairs was left undecided by the solver)
                            G.append((f"{key_}: added coordinate {q} carries a pair with squared residual >= pair ({i},{j}) unless that pair's {key_} coordinate was added too",
                                      bor(row_added, tm.disj([le(pair, b_) for b_ in best_on_line]))))
            # candidates lie in the domain
            lo_dom = const(Fraction(1, 4) if key_ == "times" else 0, "Real")          # times live on [TMIN, 1], space on [0, 1]^d
            G.append((f"{key_}: all candidates lie in the domain", tm.conj([band(le(lo_dom, c_), le(c_, const(1, "Real"))) for c_ in C.flat])))
            # reshuffle keeps the active set in the first n_eff + selected slots
            cd1 = Codes(S1)
            act = [cd1.row_of(S2[k, 0]) for k in range(n_eff + sel)]
            G.append((f"{key_}: after a reshuffle the first n_eff+selected slots hold exactly the active points (old and new)",
                      tm.conj([exactly_one([eq(a_, const(k, "Int")) for a_ in act]) for k in range(n_eff + sel)])))
        return G

    def twins(A, O):
        pre = A[0]
        cands, res, post, shuf = O
        key_, (ntot, n0, sel) = next(iter(sizes.items()))
        S1 = np.asarray(stores(post)[key_][0], dtype=object).reshape(ntot, -1)
        C = np.asarray(cands[key_], dtype=object).reshape(len(cands[key_]), -1)
        cd = Codes(C)
        n_eff = n0 + J0 * sel
        return [(f"{key_}: the first added point is always candidate 0", eq(cd.row_of(S1[n_eff, 0]), const(0, "Int")))]

    # (ranking slips only show at points where two rankings differ: more hinted refutation rounds than the default 4)
    R.check(name, tr, goals, twin_fn=(None if full else twins), validate=False, rounds=12,
            key_fn=lambda p_, g: f"{kind}:" + g.split(":", 1)[-1].strip().split(" (")[0][:60].rstrip("0123456789 ,()"))

"""C18 -- on non-finite parameters training stops and returns the last finite ones."""
import numpy as np
import jax, jax.numpy as jnp, equinox as eqx, optax
from .. import terms as tm
from ..terms import const, eq, bnot, band, bor, implies
from .. import nanmode
from ..nanmode import FN, N, V, feq
from ..interp import Interp, explore
from ..harness import _is_objarr
from ..nets import mk_pinn

INFO = dict(
    bounds=dict(quick="n_iter = 3, store of 3 points with batch 2 (arbitrary permutations), faults: NaN flag on every stored collocation point (-> loss value and all gradients), on the tangent of a custom_jvp identity around one equation parameter / around the network output scale (-> gradient of one group only), on every entry of the learning-rate schedule table (-> optimizer update); optimizers sgd and scale_by_schedule",
                thorough="n_iter = 4, store of 4 points"),
    outside=["NaN *generation* (inf - inf, 0/0, overflow): NaNs enter only through the designated fault inputs", "+-inf", "floating-point rounding"],
    assumptions=["a float is a pair (real value, NaN flag); arithmetic ORs the flags; every comparison with NaN is false; x != x is the flag",
                 "jax.random contracts", "reference = the textbook loop run for n_iter iterations in the same domain (no stopping); F = first iteration whose updated parameters carry a NaN flag"],
)


def configs(tier):
    N_ = 3 if tier == "quick" else 4
    out = []
    for fault in ("point", "grad_kappa", "grad_theta", "grad_entry", "sched"):
        for opt in (("sgd",) if fault != "sched" else ("sched",)):
            out.append(dict(fault=fault, opt=opt, n_iter=N_, n=3 if tier == "quick" else 4, b=2, x64=True))
    out.append(dict(fault="none", opt="sgd", n_iter=N_, n=3, b=2, x64=True))
    # the generator is set up for residual-adaptive refinement (burn-in longer than the run: no step ever fires)
    out.append(dict(fault="grad_theta", opt="sgd", n_iter=N_, n=3, b=2, rar=True, x64=True))
    return out


@jax.custom_jvp
def gid(x, fault):
    """identity whose tangent is multiplied by `fault` (1.0, or NaN when the fault is injected)"""
    return x


@gid.defjvp
def _gid_jvp(primals, tangents):
    x, fault = primals
    tx, _ = tangents
    return x, tx * fault


FAULT = {"fn": lambda c: c}
HOLD = {"fk": 1.0, "ft": 1.0}          # tangent faults of the current run (set before the loss is built; functions below have a stable identity)


def _ot_fault(i, o, p): return o * gid(p.eq_params["theta"], HOLD["ft"])
def _ot_plain(i, o, p): return o * p.eq_params["theta"]
def _it_id(i, p): return i
def _entry_fault(c): return gid(c, HOLD["ft"])
_EQ = {}


def _eq_class():
    if "cls" not in _EQ:
        from jinns.loss import ODE
        class Eq(ODE):
            def equation(self, t, u, p):
                return jax.grad(lambda t: u(t, p)[0])(t) + gid(jnp.ravel(p.eq_params["kappa"])[0], HOLD["fk"]) * u(t, p)
        _EQ["cls"] = Eq
    return _EQ["cls"]


class FaultNet(eqx.Module):
    """Poly+Ridge field in which ONE entry of the coefficient matrix passes through the faulty identity (so that only one
    entry of one parameter leaf gets a NaN gradient)"""
    poly: object
    ridge: object

    def __call__(self, z):
        c = self.poly.coef
        c = c.at[0, 1].set(FAULT["fn"](c[0, 1]))
        return eqx.tree_at(lambda p: p.coef, self.poly, c)(z) + self.ridge(z)


def run(cfg, R):
    import jinns
    from jinns.parameters import Params
    from jinns.parameters._derivative_keys import DerivativeKeysODE
    from jinns.loss import LossODE, ODE
    import jinns.data._DataGenerators as DG
    from .c07 import reference
    nanmode.install()
    fault, optn, n_iter, n, b = cfg["fault"], cfg["opt"], cfg["n_iter"], cfg["n"], cfg["b"]
    key = jax.random.PRNGKey(13)
    sc = lambda v: jnp.ravel(v)[0]
    fk = jnp.array(1.0); ft = jnp.array(1.0)            # tangent faults (NaN flags are attached symbolically)

    def build(fk, ft):
        HOLD["fk"], HOLD["ft"] = fk, ft
        if fault == "grad_entry":
            from jinns.utils._pinn import PINN
            from ..nets import mk_pr
            base = mk_pr(1, 1, 1, 1)
            FAULT["fn"] = _entry_fault
            u = PINN(mlp=FaultNet(base.poly, base.ridge), slice_solution=jnp.s_[0:1], eq_type="ODE", input_transform=_it_id, output_transform=_ot_plain)
        else:
            u = mk_pinn(1, 1, "ODE", deg=1, H=1, ot=_ot_fault)
        Eq = _eq_class()
        params = Params(nn_params=u.init_params(), eq_params={"theta": jnp.array(0.7), "kappa": jnp.array(1.3)})
        both = Params(nn_params=True, eq_params={"theta": True, "kappa": True})
        dk = DerivativeKeysODE(dyn_loss=both, observations=both, initial_condition=both)
        loss = LossODE(u=u, dynamic_loss=Eq(Tmax=1), initial_condition=(jnp.array(0.25), jnp.array([0.5])), derivative_keys=dk, params=params)
        return u, params, loss
    u0, params, _ = build(fk, ft)
    if cfg.get("rar"):
        data = DG.DataGeneratorODE(key, n + 2, 0.0, 1.0, b, nt_start=n,
                                   rar_parameters={"start_iter": 1000, "update_every": 1, "sample_size_times": 2, "selected_sample_size_times": 1})
    else:
        data = DG.DataGeneratorODE(key, n, 0.0, 1.0, b)
    lr = jnp.array(0.125); sched = jnp.arange(1, n_iter + 2) * 0.125
    tracked = Params(nn_params=None, eq_params={"theta": True, "kappa": True})
    R.note(functions=["jinns.solve", "jinns.solver._solve._gradient_step", "_get_break_fun", "jinns.utils._utils._check_nan_in_pytree", "_store_loss_and_params"],
           stubs_=["jax.random contracts"])

    def mkopt(lr, sched):
        if optn == "sgd": return optax.sgd(lr)
        return optax.chain(optax.scale_by_schedule(lambda count: sched[jnp.minimum(count, sched.shape[0] - 1)]), optax.scale(-1.0))

    with_val = cfg.get("val", False)
    if with_val:
        # (used by C19) a scripted validation module called at every iteration: criterion = 2*theta + 0.5 of the parameters it is GIVEN
        from .c19 import Scripted
        L_ = n_iter + 1
        VAL = Scripted(call_every=jnp.array(1), stops=jnp.zeros((L_,), dtype=bool), improves=jnp.zeros((L_,), dtype=bool), k=jnp.array(0))

    def f(lr, sched, params, data, fk, ft):
        _, _, loss = build(fk, ft)
        opt = mkopt(lr, sched)
        out = jinns.solve(n_iter, params, data, loss, opt, tracked_params=tracked, verbose=False, **(dict(validation=VAL) if with_val else {}))
        ref = reference(n_iter, params, data, loss, opt, tracked=tracked)
        # iterates of the reference loop: parameters after every update (for F and "the parameters held just before it")
        refs = []
        p_ = params; st = opt.init(params); d_ = data
        d_, _b0 = d_.get_batch()
        for i in range(n_iter):
            d_, bt = d_.get_batch()
            (val, terms), g = jax.value_and_grad(loss, has_aux=True)(p_, bt)
            upd, st = opt.update(g, st, p_); p_ = optax.apply_updates(p_, upd)
            refs.append((p_, val, terms))
        return out, refs

    name = f"{fault}/{optn}/it{n_iter}" + ("/validated-every-iteration" if with_val else "") + ("/rar-generator" if cfg.get("rar") else "")
    tr = R.trace(name, f, (lr, sched, params, data, fk, ft), key=f"{fault}:raises", use_stubs=True, missing="example")
    if tr is None: return

    # ---- attach symbolic NaN flags to the designated fault inputs
    def flag(arr, tag):
        out = np.empty(arr.shape, dtype=object)
        for idx in np.ndindex(*arr.shape):
            out[idx] = FN(arr[idx], tm.var(f"nan_{tag}" + "".join(f"_{i}" for i in idx), "Bool"))
        return out
    names = tr.names
    for k, nm in enumerate(names):
        if fault == "point" and nm == "a_3_times": tr.sym_ins[k] = flag(tr.sym_ins[k], "point")
        if fault == "sched" and nm == "a_1": tr.sym_ins[k] = flag(tr.sym_ins[k], "sched")
        if fault == "grad_kappa" and nm == "a_4": tr.sym_ins[k] = flag(tr.sym_ins[k], "gk")
        if fault in ("grad_theta", "grad_entry") and nm == "a_5": tr.sym_ins[k] = flag(tr.sym_ins[k], "gt")
    tr.A = tr._rebuild(tr.sym_ins)

    def run_plan(plan):
        it = Interp(plan=plan, fork_while=lambda e: True, while_bound=n_iter + 2, merge_small_while=10 ** 9 if False else 30)
        O = tr.run(interp=it)
        return O, it

    def feasible(path):
        import z3
        s = z3.Solver(); s.set("timeout", 5000); memo = {}; ufs = {}
        for a in path: s.add(tm.to_z3(a, memo, ufs, abstract=True))
        return str(s.check()) != "unsat"

    fault_leaf = {"point": "a_3_times", "sched": "a_1", "grad_kappa": "a_4", "grad_theta": "a_5", "grad_entry": "a_5"}.get(fault)
    tagname = {"point": "point", "sched": "sched", "grad_kappa": "gk", "grad_theta": "gt", "grad_entry": "gt"}.get(fault)

    def leaf_hook(model, leaves):
        """replay: write NaN into the fault input elements whose flag is set in the model"""
        out = []
        for nm, l in zip(tr.names, leaves):
            if nm == fault_leaf:
                a = np.array(l, dtype=np.float64)
                for idx in np.ndindex(*a.shape):
                    if model.get(f"nan_{tagname}" + "".join(f"_{i}" for i in idx), False): a[idx] = np.nan
                l = jnp.asarray(a)
            out.append(l)
        return out
    tr.leaf_hook = leaf_hook

    def tree_nan(tree):
        fl = tm.FALSE
        for l in jax.tree_util.tree_leaves(tree, is_leaf=_is_objarr):
            if _is_objarr(l):
                for t in l.flat: fl = tm.bor(fl, N(t))
        return fl

    def tree_feq(a, b):
        la = [l for l in jax.tree_util.tree_leaves(a, is_leaf=_is_objarr) if _is_objarr(l)]
        lb = [l for l in jax.tree_util.tree_leaves(b, is_leaf=_is_objarr) if _is_objarr(l)]
        if len(la) != len(lb) or any(x.shape != y.shape for x, y in zip(la, lb)): return tm.FALSE
        return tm.conj([feq(p, q) for x, y in zip(la, lb) for p, q in zip(x.flat, y.flat)])

    def goals(A, O):
        out, refs = O
        init_params = A[2]
        G = []
        nanp = [tree_nan(r[0]) for r in refs]                       # NaN in the reference parameters after update i
        # F = first iteration whose update produces a NaN parameter (n_iter if none)
        isF = []
        for i in range(n_iter):
            isF.append(band(nanp[i], tm.conj([bnot(nanp[j]) for j in range(i)])))
        none = tm.conj([bnot(x) for x in nanp])
        G.append(("returned parameters are NaN-free", bnot(tree_nan(out[0]))))
        for i in range(n_iter):
            before = init_params if i == 0 else refs[i - 1][0]
            G.append((f"fault at iteration {i} => returned parameters are those held just before it", implies(isF[i], tree_feq(out[0], before))))
            for j in range(n_iter):
                if j <= i:
                    G.append((f"fault at iteration {i} => loss history[{j}] is the reference loop's", implies(isF[i], feq(out[1][j], refs[j][1][()]))))
                    G.append((f"fault at iteration {i} => term histories[{j}] are the reference loop's",
                              implies(isF[i], tm.conj([feq(out[2][k][j], refs[j][2][k][()]) for k in out[2]]))))
                    # tracked parameters: the value after update j, NaN included at the failing iteration
                    G.append((f"fault at iteration {i} => tracked-parameter histories[{j}] are the reference loop's (the parameters after update {j})",
                              implies(isF[i], tm.conj([feq(out[6].eq_params[k][j], refs[j][0].eq_params[k][()]) for k in ("theta", "kappa")]))))
                else:
                    G.append((f"fault at iteration {i} => loss history[{j}] is left untouched (0)", implies(isF[i], feq(out[1][j], const(0, "Real")))))
                    G.append((f"fault at iteration {i} => term histories[{j}] are left untouched (0)",
                              implies(isF[i], tm.conj([feq(out[2][k][j], const(0, "Real")) for k in out[2]]))))
        if with_val:
            crit = out[7]
            from fractions import Fraction
            two, half = const(2, "Real"), const(Fraction(1, 2), "Real")
            for i in range(n_iter):
                # the module is invoked with the post-update parameters, also at the failing iteration: its criterion there is NaN
                G.append((f"fault at iteration {i} => the validation criterion recorded at {i} is that of the post-update (NaN) parameters", implies(isF[i], N(crit[i]))))
                for j in range(i):
                    th = refs[j][0].eq_params["theta"][()]
                    G.append((f"fault at iteration {i} => the validation criterion recorded at {j} is that of the post-update parameters",
                              implies(isF[i], feq(crit[j], tm.add(tm.mul(two, th), half)))))
        G.append(("no fault => final parameters are the reference loop's", implies(none, tree_feq(out[0], refs[-1][0]))))
        for j in range(n_iter):
            G.append((f"no fault => loss history[{j}] is the reference loop's", implies(none, feq(out[1][j], refs[j][1][()]))))
        return G

    if R.replay is not None:
        R.check(R.replay.get("prog"), tr, goals, validate=False)
        return
    paths, nfeas = explore(run_plan, feasible, max_paths=64)
    R.paths += len(paths); R.feas_queries += nfeas
    for k, (plan, path, O, it) in enumerate(paths):
        tr.last_interp = it
        R.check(f"{name}/path{k}", tr, goals, assume=list(path), O=O, validate=False,
                key_fn=lambda p_, g: f"{fault}:" + g.split("=>")[-1].strip()[:50].rstrip("0123456789[] "))
    if fault != "none" and len(paths) < 2:
        R.errors.append(f"{name}: the fault never stops the loop (only {len(paths)} path): harness cannot see what it claims to check")
    # reachability twin: some path stops early
    R.twins.append(dict(prog=name, twin="the fault can stop the loop: more than one feasible exit path", verdict="sat" if (len(paths) > 1 or fault == "none") else "unsat", ms=0.0))

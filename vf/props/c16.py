"""C16 -- residual-adaptive refinement follows its schedule and never exceeds capacity.
start_iter and update_every are SYMBOLIC integers; K consecutive trigger_rar calls are executed path-wise (fork on
the schedule predicates, feasibility by z3), so that along a path all counters and probability masks are concrete."""
import numpy as np
import jax, jax.numpy as jnp, equinox as eqx
from .. import terms as tm
from ..terms import const, eq, lt, le, bnot, band, bor, implies
from ..interp import Interp, explore, NotEncodable
from ..nets import mk_pinn
from ..stubs import psi
from ..harness import Traced, HarnessError
from ..decide import Decider

INFO = dict(
    bounds=dict(quick="K = 7 iterations, start_iter >= 0 and update_every >= 1 symbolic (unbounded), stores of 8-9 points with n_start != nt_start, 2 selected out of 3-4 candidates, capacity exhausted within K for small schedules; ODE, stationary and non-stationary generators",
                thorough="K = 10 iterations, stores of 10-12 points"),
    outside=["more iterations than K", "the threefry stream and the residual values (irrelevant to the schedule: left symbolic)", "RAR driven through jinns.solve (the same trigger_rar calls are traced directly; C07 covers the loop)"],
    assumptions=["start_iter >= 0, update_every >= 1", "jax.random contracts; argsort/top_k = declarative sorted-permutation contract"],
    fresh_process=True,       # one process per configuration: step functions / counters kept at module level by an earlier configuration must not be reused
)


def configs(tier):
    K = 7 if tier == "quick" else 10
    out = []
    for kind in ("ode", "statio", "nonstatio"):
        for d in ((1,) if kind == "ode" else (2, 1)):
            out.append(dict(kind=kind, K=K, d=d, x64=True))
    out.append(dict(kind="nonstatio", K=K, d=1, time_first=True, x64=True))     # the time store fills before the space store
    for kind in ("ode", "statio", "nonstatio"):                                 # free room that is not a multiple of the selected size
        out.append(dict(kind=kind, K=K, d=1, odd=True, x64=True))
    out.append(dict(kind="ode", K=K, d=1, after_other=True, x64=True))          # init_rar of ANOTHER generator (same candidate size, other selected size) ran before, in the same process
    out.append(dict(kind="ode", K=K, d=1, resume=3, x64=True))                  # solve called again with the returned generator after 3 iterations
    out.append(dict(kind="nonstatio", K=K, d=1, resume=3, x64=True))            # same, product domain (the returned generator carries its sizes as arrays)
    if tier == "thorough":
        out.append(dict(kind="statio", K=K, d=2, resume=3, x64=True))
        out.append(dict(kind="nonstatio", K=K, d=1, resume=3, time_first=True, x64=True))
    return out


KEY = None
TMIN = 0.25          # the time interval does not start at 0 (a candidate drawn as tmin + tmax*U would leave it)


def build(kind, start, every, d=1, ncomp=1, time_first=False, system=False, odd=False, sel_t=2, hetero=False):
    global KEY
    import jinns
    from jinns.parameters import Params
    from jinns.loss import LossODE, LossPDEStatio, LossPDENonStatio, ODE, PDEStatio, PDENonStatio
    import jinns.data._DataGenerators as DG
    if KEY is None: KEY = jax.random.PRNGKey(11)
    key = KEY
    sc = lambda v: jnp.ravel(v)[0]
    rp = {"start_iter": start, "update_every": every, "sample_size_times": 3, "selected_sample_size_times": sel_t,
          "sample_size_omega": 4, "selected_sample_size_omega": 2, "sample_size": 3, "selected_sample_size": 2}
    if kind == "ode" and system:
        # a system of two ODEs (declared in non-alphabetical order) with two unknowns: candidates are ranked by the SUM over the equations
        from jinns.loss import SystemLossODE, LossWeightsODEDict
        from jinns.parameters import ParamsDict
        nets = {k: mk_pinn(1, 1, "ODE", deg=1, H=1) for k in ("a", "b")}
        class Eq(ODE):
            idx: int = eqx.field(static=True, default=0)
            def equation(self, t, ud, pd):
                # two residuals of different size and landscape (the ranking by their SUM of squares is not the ranking by either alone)
                return jnp.array([(1.0 + 2.0 * self.idx) * psi(self.idx)((1.0 + self.idx) * ud["a"](t, pd.extract_params("a"))[0]
                                                                            + (1.0 - 2.0 * self.idx) * ud["b"](t, pd.extract_params("b"))[0] + (0.5 - 2.5 * self.idx) * sc(t))])
        params = ParamsDict(nn_params={k: nets[k].init_params() for k in nets}, eq_params={"kappa": jnp.array(1.3)})
        loss = SystemLossODE(u_dict=nets, dynamic_loss_dict={"e1": Eq(idx=1, Tmax=1), "e0": Eq(idx=0, Tmax=1)},
                             loss_weights=LossWeightsODEDict(dyn_loss=1.0, initial_condition=1.0, observations=1.0), params_dict=params)
        data = DG.DataGeneratorODE(key, 9, TMIN, 1.0, 2, rar_parameters=rp, nt_start=3)
        sizes = dict(times=(9, 3, 2))
    elif kind == "ode":
        u = mk_pinn(1, 1, "ODE", deg=1, H=1)
        class Eq(ODE):
            def equation(self, t, u, p):
                if ncomp == 1: return psi(0)(u(t, p)[0] + 0.5 * sc(t))
                return jnp.stack([(1.0 - 2.0 * (c % 2)) * psi(c)((1.0 + c) * u(t, p)[0] + 0.5 * sc(t)) for c in range(ncomp)])      # alternating signs: components partially cancel
        params = Params(nn_params=u.init_params(), eq_params={"kappa": jnp.array(1.3)})
        loss = LossODE(u=u, dynamic_loss=Eq(Tmax=1), params=params)
        nt_tot = 8 if odd else 9              # odd: the free room (5) is not a multiple of the selected size (2)
        data = DG.DataGeneratorODE(key, nt_tot, TMIN, 1.0, 2, rar_parameters=rp, nt_start=3)
        sizes = dict(times=(nt_tot, 3, sel_t))
    elif kind == "statio":
        u = mk_pinn(d, 1, "statio_PDE", deg=1, H=1)
        class Eq(PDEStatio):
            def equation(self, x, u, p):
                if ncomp == 1: return psi(0)(u(x, p)[0] + 0.5 * x[0])
                return jnp.stack([(1.0 - 2.0 * (c % 2)) * psi(c)((1.0 + c) * u(x, p)[0] + 0.5 * x[0]) for c in range(ncomp)])
        params = Params(nn_params=u.init_params(), eq_params={"kappa": jnp.array(1.3)})
        loss = LossPDEStatio(u=u, dynamic_loss=Eq(Tmax=1), params=params)
        n_tot = 7 if odd else 8
        data = DG.CubicMeshPDEStatio(key=key, n=n_tot, nb=None, omega_batch_size=2, omega_border_batch_size=None, dim=d, min_pts=(0.0,) * d, max_pts=(1.0,) * d,
                                     rar_parameters=rp, n_start=4)
        sizes = dict(omega=(n_tot, 4, 2))
    else:
        u = mk_pinn(1 + d, 1, "nonstatio_PDE", deg=1, H=1)
        class Eq(PDENonStatio):
            def equation(self, t, x, u, p): return psi(0)(u(t, x, p)[0] + 0.5 * t[0] + 0.25 * x[0] + (sc(p.eq_params["kappa"]) if hetero else 0.0))
        params = Params(nn_params=u.init_params(), eq_params={"kappa": jnp.array(1.3)})
        # hetero: kappa is a space-time dependent coefficient (the residual the loss minimises is the one with kappa(t, x))
        hk = dict(eq_params_heterogeneity={"kappa": _het_kappa}) if hetero else {}
        loss = LossPDENonStatio(u=u, dynamic_loss=Eq(Tmax=1, **hk), params=params)
        n_, n0_, nt_, nt0_ = (13, 4, 7, 3) if time_first else ((12, 7, 8, 3) if odd else (10, 4, 9, 3))      # odd: free room not a multiple of the selected sizes, and n_start - nt_start larger than one selected set
        rp = dict(rp, selected_sample_size_omega=3)
        data = DG.CubicMeshPDENonStatio(key=key, n=n_, nb=None, nt=nt_, omega_batch_size=2, omega_border_batch_size=None, temporal_batch_size=2, dim=d,
                                        min_pts=(0.0,) * d, max_pts=(1.0,) * d, tmin=TMIN, tmax=1.0, rar_parameters=rp, n_start=n0_, nt_start=nt0_)
        sizes = dict(times=(nt_, nt0_, 2), omega=(n_, n0_, 3))
    return data, loss, params, sizes


def _het_kappa(t, x, u, p):
    return psi(2)(p.eq_params["kappa"] + 4.0 * t[0] - 3.0 * x[0])


def snapshot(kind, data):
    d = dict(nb=data.rar_iter_nb, last=data.rar_iter_from_last_sampling)
    if kind in ("ode", "nonstatio"): d["p_times"] = data.p_times; d["times"] = data.times
    if kind in ("statio", "nonstatio"): d["p_omega"] = data.p_omega; d["omega"] = data.omega
    return d


def run(cfg, R):
    from jinns.solver._rar import init_rar, trigger_rar
    kind, K, d = cfg["kind"], cfg["K"], cfg.get("d", 1)
    tf = cfg.get("time_first", False); odd = cfg.get("odd", False)
    resume = cfg.get("resume", 0)
    Kfull = K; K = K - resume
    build(kind, 1, 2, d)          # creates the (concrete) PRNG key outside the traced function
    start0, every0 = jnp.array(1), jnp.array(2)
    R.note(functions=["jinns.solver._rar.init_rar", "trigger_rar", "_proceed_to_rar", "rar_step_true", "rar_step_false", "jinns.data._DataGenerators._check_and_set_rar_parameters"],
           stubs_=["jax.random contracts", "argsort/top_k -> sorted-permutation contract"],
           assumptions=["start_iter >= 0", "update_every >= 1"])

    pre = None
    if resume:
        # first leg, run for real (concrete schedule start=0, every=3): its returned generator is what a user passes back to solve()
        from .. import stubs as _st
        data1, loss1, params1, _ = build(kind, 0, 3, d, time_first=tf)
        with _st.stubbed():
            data1, t1, f1 = init_rar(data1)
            for i in range(resume):
                loss1, params1, data1 = trigger_rar(i, loss1, params1, data1, t1, f1)
        pre = (data1, loss1, params1)

    def f(start, every):
        if resume:
            data, loss, params = pre
            rp2 = dict(data.rar_parameters); rp2["start_iter"] = start; rp2["update_every"] = every
            data = eqx.tree_at(lambda m: m.rar_parameters, data, rp2)
        else:
            data, loss, params, _ = build(kind, start, every, d, time_first=tf, odd=odd)
        if cfg.get("after_other"):
            init_rar(build(kind, start, every, d, sel_t=1)[0])          # an earlier solve() of this process, on a generator that selects ONE point per step
        data, t_, f_ = init_rar(data)                     # what every jinns.solve call does first
        outs = [snapshot(kind, data)]
        for i in range(K):                                # (K already excludes the first leg of a resumed run)
            loss, params, data = trigger_rar(i, loss, params, data, t_, f_)
            outs.append(snapshot(kind, data))
        return outs

    _, _, _, sizes = build(kind, 1, 2, d, time_first=tf, odd=odd)
    name = f"{kind}/d{d}/K{Kfull}" + ("/time-first" if tf else "") + ("/free-room-not-multiple" if odd else "") + ("/after-another-generator" if cfg.get("after_other") else "") + (f"/resumed-after-{resume}" if resume else "")
    tr = R.trace(name, f, (start0, every0), key=f"{kind}:d={d}" + (":resumed" if resume else "") + ":raises", use_stubs=True)
    if tr is None: return
    start, every = tr.A[0][()], tr.A[1][()]
    base_assume = [le(const(0, "Int"), start), le(const(1, "Int"), every)]

    def fork_cond(e, pred):
        # fork on control predicates (no Real symbol inside): the schedule tests
        cache = {}
        from ..terms import subterms
        return not any(x.op == "var" and x.sort == "Real" for x in subterms([pred]))

    def run_plan(plan):
        it = Interp(plan=plan, fork_cond=fork_cond, while_bound=K + 4)
        O = tr.run(interp=it)
        return O, it

    fdec = Decider(base_assume, seed=R.seed)
    def feasible(path):
        import z3
        s = z3.Solver(); s.set("timeout", 5000); memo = {}; ufs = {}
        for a in base_assume + list(path): s.add(tm.to_z3(a, memo, ufs))
        return str(s.check()) != "unsat"

    if R.replay is not None:
        paths = [((), [], None, None)]
    else:
        paths, nfeas = explore(run_plan, feasible, max_paths=400)
        R.paths += len(paths); R.feas_queries += nfeas

    def cnt_nonzero(parr):
        return [bnot(eq(p, const(0, p.sort))) for p in parr]

    def goals_for(A, O):
        st, ev = A[0][()], A[1][()]
        G = []
        # step pattern read off the outputs
        nb = [(o["nb"][()] if isinstance(o["nb"], np.ndarray) else const(int(o["nb"]), "Int")) for o in O]
        if not all(x.is_const for x in nb):
            return [("refinement counter is concrete along a path", tm.FALSE)]
        J = int(nb[0].val)                      # steps already taken before the asserted leg (resumed runs)
        for i in range(K):
            stepped = int(nb[i + 1].val) - int(nb[i].val)
            G.append((f"iteration {i}: at most one refinement step", const(stepped in (0, 1), "Bool")))
            on_sched = band(le(st, const(i, "Int")), tm.disj([eq(const(i, "Int"), tm.add(st, tm.mul(const(m, "Int"), ev))) for m in range(0, i + 1)]))
            room = True
            for key_, (ntot, n0, sel) in sizes.items():
                room = room and (n0 + (J + 1) * sel <= ntot)
            expected = band(on_sched, const(room, "Bool"))
            G.append((f"iteration {i}: a refinement step happens iff i = start + k*update_every (k >= 0) and the store can hold another full set",
                      eq(const(bool(stepped), "Bool"), expected) if False else (expected if stepped else bnot(expected))))
            J += stepped
            for key_, (ntot, n0, sel) in sizes.items():
                p = O[i + 1]["p_" + key_]
                nz = [t for t in p]
                if not all(t.is_const for t in nz):
                    G.append((f"after iteration {i}: probability mask of {key_} is concrete along a path", tm.FALSE)); continue
                c = sum(1 for t in nz if t.val != 0)
                G.append((f"after iteration {i}: #{{p_{key_} != 0}} == {key_}_start + J*selected (J = steps so far)", const(c == n0 + J * sel, "Bool")))     # (the name must not depend on the run: replays look goals up by name)
                G.append((f"after iteration {i}: active {key_} count never exceeds the store", const(c <= ntot, "Bool")))
        return G

    def twins_for(A, O):
        # reachability: on this path the step pattern is NOT "a step at every iteration" / "never a step" for all schedules
        nb = [(o["nb"][()] if isinstance(o["nb"], np.ndarray) else const(int(o["nb"]), "Int")) for o in O]
        st, ev = A[0][()], A[1][()]
        return [("every schedule has start_iter == 0 and update_every == 1", band(eq(st, const(0, "Int")), eq(ev, const(1, "Int"))))]

    for k, (plan, path, O, it) in enumerate(paths):
        if R.replay is None:
            tr.last_interp = it
        prog = f"{name}/path{k}" if R.replay is None else R.replay.get("prog")
        R.check(prog, tr, goals_for, assume=base_assume + list(path), O=O, validate=False,
                twin_fn=(twins_for if (R.replay is None and k in (1, len(paths) - 1) and len(paths) > 2) else None),
                key_fn=lambda p_, g: f"{kind}:" + g.split(":", 1)[-1].split(" (J")[0].strip()[:70])
    if R.replay is None and not paths:
        R.errors.append(f"{name}: no feasible path")

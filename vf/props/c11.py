"""C11 -- forward-mode (separable, grid) and reverse-mode (pointwise) computations agree."""
import itertools
import numpy as np
import jax, jax.numpy as jnp, equinox as eqx
from fractions import Fraction
from .. import terms as tm
from ..terms import const, add, mul, neg, sub, eq, uf
from ..nets import PolyNet, Ridge, monos
from ..stubs import phi, psi

INFO = dict(
    bounds=dict(quick="separable networks with D <= 3 separable dimensions (time + space), embedding r <= 2, outputs m <= 2, per-axis batch 2 and 1 (batch smaller than the dimension), 1-D Poly(2)+Ridge(1) factors with an uninterpreted activation; operators, built-in dynamic losses at their own dimension, boundary / initial-condition / normalisation terms",
                thorough="same with r = 2, m = 2 everywhere and per-axis batch 3 for the operators"),
    outside=["larger grids", "floating-point rounding"],
    assumptions=["floats are mathematical reals", "both sides are the real code: the SPINN/forward branch on the separable network and the PINN/reverse branch on its pointwise twin sum_r prod_d f_d(x_d), which share every symbol",
                 "border batches lie on their facet (the generator's contract, C08), the normalisation samples of the pointwise term are the flattened grid of the separable term's samples, pointwise batches are the flattened grid in time-major order"],
)


class Sep(eqx.Module):
    """separable field: D one-dimensional Poly+Ridge factors with r*m channels.  Called as a `_SPINN`
    (t, x) -> (D, r*m) features, or pointwise with one argument z -> sum_r prod_d f_d(z_d) (m outputs)."""
    polys: list
    ridges: list
    D: int = eqx.field(static=True)
    r: int = eqx.field(static=True)
    m: int = eqx.field(static=True)

    def feats(self, dims):
        return jnp.stack([self.polys[d](dims[d][None]) + self.ridges[d](dims[d][None]) for d in range(self.D)])

    def __call__(self, t=None, x=None):
        if x is None:                   # pointwise twin: t holds the whole input point
            F = self.feats(t)           # (D, r*m)
            return jnp.stack([jnp.sum(jnp.prod(F[:, k * self.r:(k + 1) * self.r], axis=0)) for k in range(self.m)])
        dims = jnp.concatenate([t, x.flatten()], axis=0) if t is not None else x.flatten()
        return self.feats(dims)


def mk_sep(D, r, m, deg=2, H=1):
    ex = monos(1, deg)
    polys = [PolyNet(jnp.ones((r * m, len(ex))) * (0.3 + 0.1 * d), ex) for d in range(D)]
    ridges = [Ridge(jnp.ones((H, 1)) * 0.3, jnp.ones((H,)) * 0.2, jnp.ones((r * m, H)) * (0.5 + 0.1 * d)) for d in range(D)]
    return Sep(polys, ridges, D, r, m)


def configs(tier):
    out = []
    rm = ((1, 1), (2, 1)) if tier == "quick" else ((2, 1), (2, 2))
    for (statio, dsp) in ((True, 1), (True, 2), (False, 1), (False, 2), (True, 3)):
        for B in ((2, 1) if tier == "quick" else (2, 1, 3)):
            if B == 3 and dsp > 1: continue
            for op in ("laplacian", "div", "veclap", "advection"):
                if op == "advection" and dsp != 2: continue
                if op == "div" and dsp == 1 and not statio: pass
                r = 2 if (B == 2 and dsp == 2) else 1
                out.append(dict(part="op", op=op, statio=statio, dsp=dsp, B=B, r=r))
    for e in ("burgers", "fisher1", "fisher2", "ou", "mass", "ns"):
        for B in (2, 1):
            out.append(dict(part="eq", eq=e, B=B, r=(2 if e in ("burgers", "fisher1") else 1)))
    for term in ("dirichlet", "neumann"):
        for statio in (True, False):
            for dsp in (1, 2):
                out.append(dict(part="term", term=term, statio=statio, dsp=dsp, B=(1 if dsp == 1 and statio else 2), r=1))
    for statio in (True, False):          # component selection on a 2-output separable network
        for bdim in (0, 1):
            out.append(dict(part="term", term="dirichlet", statio=statio, dsp=2, B=2, r=1, m=2, bdim=bdim))
            out.append(dict(part="term", term="neumann", statio=statio, dsp=2, B=2, r=1, m=2, bdim=bdim))
    for statio in (True, False):          # the dynamic TERM of the loss (batch-mean weighted squared residual), 2 residual components
        for w in ("scalar", "vector"):
            out.append(dict(part="term", term="dyn", statio=statio, dsp=(2 if statio else 1), B=2, r=1, w=w))
    for dsp in (1, 2):
        out.append(dict(part="term", term="ic", statio=False, dsp=dsp, B=2, r=1))
        out.append(dict(part="term", term="norm", statio=True, dsp=dsp, B=2, r=1))
        out.append(dict(part="term", term="norm", statio=False, dsp=dsp, B=2, r=1))
    # more normalisation samples than batch times (a strict multiple): every batch time still gets its own integral
    out.append(dict(part="term", term="norm", statio=False, dsp=1, B=2, r=1, ns=4))
    return out


def run(cfg, R):
    import jinns
    from jinns.parameters import Params, ParamsDict
    from jinns.utils._pinn import PINN
    from jinns.utils._spinn import SPINN
    from jinns.loss import _div_fwd, _div_rev, _laplacian_fwd, _laplacian_rev, _vectorial_laplacian
    from jinns.loss._operators import _u_dot_nabla_times_u_fwd, _u_dot_nabla_times_u_rev
    idt = lambda i, p: i
    odt = lambda i, o, p: o
    part = cfg["part"]; B = cfg["B"]; r = cfg["r"]

    def wrap(D, m, statio):
        sep = mk_sep(D, r, m)
        eqt = "statio_PDE" if statio else "nonstatio_PDE"
        sp = SPINN(spinn_mlp=sep, d=D, r=r, eq_type=eqt, m=m)
        pn = PINN(mlp=sep, slice_solution=jnp.s_[0:m], eq_type=eqt, input_transform=idt, output_transform=odt)
        return sep, sp, pn

    def grid_points(t, x, statio):
        """index tuples and the corresponding points, time-major"""
        D = x.shape[1] + (0 if statio else 1)
        pts = []
        for idx in itertools.product(range(B), repeat=D):
            if statio:
                pts.append((idx, None, jnp.stack([x[idx[j], j] for j in range(x.shape[1])])))
            else:
                pts.append((idx, t[idx[0]], jnp.stack([x[idx[1 + j], j] for j in range(x.shape[1])])))
        return pts

    def compare(name, fwd_val, rev_vals, label):
        """one goal per (grid point, component): fwd grid array (B,)*D [+ comps] vs list over grid points (time-major) of pointwise arrays"""
        def goals(A, O):
            fw, rv = O
            n = len(rv)
            f2 = np.asarray(fw, dtype=object).reshape(n, -1)
            ok = all(np.asarray(v, dtype=object).size == f2.shape[1] for v in rv)
            if not ok: return [(label + " (shapes)", tm.FALSE)]
            G = []
            for k in range(n):
                for c, (a, b) in enumerate(zip(f2[k], np.asarray(rv[k], dtype=object).reshape(-1))):
                    G.append((f"{label} [grid point {k}, component {c}]", eq(a, b)))
            return G
        return goals

    if part == "op":
        op, statio, dsp = cfg["op"], cfg["statio"], cfg["dsp"]
        D = dsp + (0 if statio else 1)
        m = {"laplacian": 1, "div": dsp, "veclap": 2, "advection": 2}[op]
        sep, sp, pn = wrap(D, m, statio)
        params = Params(nn_params=sp.init_params(), eq_params={"unrelated": jnp.array(1.5)})
        x = jnp.arange(1, B * dsp + 1).reshape(B, dsp) * 0.125
        t = None if statio else jnp.arange(1, B + 1).reshape(B, 1) * 0.3
        R.note(functions=[{"laplacian": "_laplacian_fwd vs _laplacian_rev", "div": "_div_fwd vs _div_rev", "veclap": "_vectorial_laplacian[SPINN] vs [PINN]",
                           "advection": "_u_dot_nabla_times_u_fwd vs _rev"}[op], "SPINN.__call__/eval_nn", "PINN.__call__"])

        def f(params, t, x):
            if op == "laplacian": fw = _laplacian_fwd(t, x, sp, params)
            elif op == "div": fw = _div_fwd(t, x, sp, params)
            elif op == "veclap": fw = jnp.moveaxis(_vectorial_laplacian(t, x, sp, params, u_vec_ndim=m), 0, -1)
            else: fw = _u_dot_nabla_times_u_fwd(t, x, sp, params)
            rv = []
            for idx, tt, xx in grid_points(t, x, statio):
                if op == "laplacian": rv.append(_laplacian_rev(tt, xx, pn, params))
                elif op == "div": rv.append(_div_rev(tt, xx, pn, params))
                elif op == "veclap": rv.append(_vectorial_laplacian(tt, xx, pn, params, u_vec_ndim=m))
                else: rv.append(_u_dot_nabla_times_u_rev(tt, xx, pn, params))
            return fw, rv
        name = f"op/{op}/{'statio' if statio else 'nonstatio'}/d{dsp}/B{B}/r{r}"
        tr = R.trace(name, f, (params, t, x), key=f"op:{op}:raises")
        if tr is None: return
        goals = compare(name, None, None, f"{op}: forward-mode grid value at (i1..id) == reverse-mode value at the point (x_i1..x_id), time axis first")
        def twins(A, O):
            fw, rv = O
            f2 = np.asarray(fw, dtype=object).reshape(len(rv), -1)
            if len(rv) > 1:
                return [("grid read in reversed order", tm.conj([eq(a, b) for k in range(len(rv)) for a, b in zip(f2[len(rv) - 1 - k], np.asarray(rv[k], dtype=object).reshape(-1))]))]
            return [("forward value == 0", tm.conj([eq(a, const(0, "Real")) for a in f2.flat]))]
        R.check(name, tr, goals, twin_fn=twins, key_fn=lambda p_, g: f"op:{op}")
        return

    if part == "eq":
        from jinns.loss import BurgerEquation, FisherKPP, OU_FPENonStatioLoss2D, MassConservation2DStatio, NavierStokes2DStatio
        e = cfg["eq"]
        Tmax = jnp.array(1.7)
        if e in ("burgers", "fisher1", "fisher2", "ou"):
            dsp = {"burgers": 1, "fisher1": 1, "fisher2": 2, "ou": 2}[e]
            sep, sp, pn = wrap(1 + dsp, 1, False)
            if e == "burgers": dl = BurgerEquation(Tmax=Tmax); eqp = {"nu": jnp.array(0.3)}
            elif e.startswith("fisher"): dl = FisherKPP(Tmax=Tmax); eqp = {"D": jnp.array([0.3]), "r": jnp.array([0.6]), "g": jnp.array([0.9])}
            else: dl = OU_FPENonStatioLoss2D(Tmax=Tmax); eqp = {"alpha": jnp.array([0.3, 0.4]), "mu": jnp.array([0.1, -0.2]), "sigma": jnp.array([0.5, 0.7])}
            params = Params(nn_params=sp.init_params(), eq_params=eqp)
            x = jnp.arange(1, B * dsp + 1).reshape(B, dsp) * 0.125; t = jnp.arange(1, B + 1).reshape(B, 1) * 0.3
            def f(dl, params, t, x):
                fw = dl.evaluate(t, x, sp, params)
                rv = [dl.evaluate(tt, xx, pn, params) for idx, tt, xx in grid_points(t, x, False)]
                return fw, rv
            args = (dl, params, t, x)
        else:
            sepu, spu, pnu = wrap(2, 2, True)
            sepp, spp, pnp = wrap(2, 1, True)
            if e == "mass": dl = MassConservation2DStatio(nn_key="vel")
            else: dl = NavierStokes2DStatio(u_key="vel", p_key="pres")
            params = ParamsDict(nn_params={"vel": spu.init_params(), "pres": spp.init_params()}, eq_params={"rho": jnp.array(1.3), "nu": jnp.array(0.2)})
            x = jnp.arange(1, B * 2 + 1).reshape(B, 2) * 0.125
            def f(dl, params, x):
                fw = dl.evaluate(x, {"vel": spu, "pres": spp}, params)
                rv = [dl.evaluate(xx, {"vel": pnu, "pres": pnp}, params) for idx, tt, xx in grid_points(None, x, True)]
                return fw, rv
            args = (dl, params, x)
        name = f"eq/{e}/B{B}/r{r}"
        R.note(functions=[f"jinns.loss.{type(dl).__name__}.equation [SPINN branch] vs [PINN branch]"])
        tr = R.trace(name, f, args, key=f"eq:{e}:raises")
        if tr is None: return
        goals = compare(name, None, None, f"{e}: separable residual at grid index == pointwise residual at the corresponding point")
        def twins(A, O):
            fw, rv = O
            f2 = np.asarray(fw, dtype=object).reshape(len(rv), -1)
            return [("separable residual == 2 * pointwise residual", tm.conj([eq(a, mul(const(2, "Real"), b)) for k in range(len(rv)) for a, b in zip(f2[k], np.asarray(rv[k], dtype=object).reshape(-1))]))]
        R.check(name, tr, goals, twin_fn=twins, hint_spec=[(r"Tmax", "pos"), (r"rho", "pos")], key_fn=lambda p_, g: f"eq:{e}")
        return

    # ------------------------------------------------------------------ loss terms
    from jinns.loss import LossPDEStatio, LossPDENonStatio, LossWeightsPDEStatio, LossWeightsPDENonStatio
    from jinns.data._Batchs import PDEStatioBatch, PDENonStatioBatch
    term, statio, dsp = cfg["term"], cfg["statio"], cfg["dsp"]
    D = dsp + (0 if statio else 1)
    mt = cfg.get("m", 1); bdim = cfg.get("bdim")
    sep, sp, pn = wrap(D, mt, statio)
    params = Params(nn_params=sp.init_params(), eq_params={"theta": jnp.array(0.3)})
    nf = 2 * dsp
    w = jnp.array(0.75)
    def flin(*a):
        if len(a) == 1: (dx,) = a; return 0.5 * dx[..., 0] + 0.25 * dx[..., -1] * (dsp - 1) + 0.125
        t_, dx = a; return 2.0 * t_[..., 0] + 0.5 * dx[..., 0] + 0.25 * dx[..., -1] * (dsp - 1) + 0.125
    fb = lambda *a: psi(4)(flin(*a))[..., None]
    kw_s = dict(dynamic_loss=None, params=params)
    tname = {"dirichlet": "boundary_loss", "neumann": "boundary_loss", "ic": "initial_condition", "norm": "norm_loss", "dyn": "dyn_loss"}[term]
    R.note(functions=[{"dirichlet": "boundary_dirichlet_*[SPINN] vs [PINN]", "neumann": "boundary_neumann_*[SPINN] vs [PINN]", "ic": "initial_condition_apply[SPINN] vs [PINN]",
                       "norm": "normalization_loss_apply[SPINN] vs [PINN]", "dyn": "dynamic_loss_apply[SPINN] vs [PINN]"}[term], "jinns.utils._utils._get_grid"])

    def mk_losses(extra):
        if statio:
            return (LossPDEStatio(u=sp, loss_weights=LossWeightsPDEStatio(boundary_loss=w, norm_loss=w), **kw_s, **extra),
                    LossPDEStatio(u=pn, loss_weights=LossWeightsPDEStatio(boundary_loss=w, norm_loss=w), **kw_s, **extra))
        return (LossPDENonStatio(u=sp, loss_weights=LossWeightsPDENonStatio(boundary_loss=w, norm_loss=w, initial_condition=w), **kw_s, **extra),
                LossPDENonStatio(u=pn, loss_weights=LossWeightsPDENonStatio(boundary_loss=w, norm_loss=w, initial_condition=w), **kw_s, **extra))

    x = jnp.arange(1, B * dsp + 1).reshape(B, dsp) * 0.125
    t = jnp.arange(1, B + 1).reshape(B, 1) * 0.3
    if term in ("dirichlet", "neumann"):
        ls, lp = mk_losses(dict(omega_boundary_fun=fb, omega_boundary_condition=term, **(dict(omega_boundary_dim=bdim) if bdim is not None else {})))
        # border batch on its facets: pinned coordinate shared by all rows (generator's contract)
        pins = jnp.array([0.0, 1.0, 0.0, 1.0][:nf])
        free = jnp.arange(1, B * nf + 1).reshape(B, nf) * 0.11
        def border(pins, free):
            if dsp == 1: return pins[None, None, :]                      # (1, 1, 2)
            cols = []
            for fct in range(4):
                ax = 0 if fct < 2 else 1
                pt = [None, None]; pt[ax] = jnp.repeat(pins[fct], B); pt[1 - ax] = free[:, fct]
                cols.append(jnp.stack(pt, axis=1))
            return jnp.stack(cols, axis=-1)                               # (B, 2, 4)
        def f(ls, lp, params, t, pins, free):
            lp = eqx.tree_at(lambda l: l.loss_weights, lp, ls.loss_weights)
            bd = border(pins, free)
            nb = bd.shape[0]
            if statio:
                bs = PDEStatioBatch(inside_batch=x, border_batch=bd)
                # pointwise: the flattened grid of every facet's coordinates
                fac = []
                for fct in range(nf):
                    g_ = jnp.stack(jnp.meshgrid(*[bd[:, j, fct] for j in range(dsp)], indexing="ij"), axis=-1).reshape(-1, dsp)
                    fac.append(g_)
                bp = PDEStatioBatch(inside_batch=x, border_batch=jnp.stack(fac, axis=-1))
            else:
                tb = t[:nb] if dsp == 1 else t
                txb = jnp.concatenate([jnp.repeat(tb[:, :, None], nf, axis=2), bd], axis=1)     # (nb, 1+dsp, nf), row i pairs t_i with border row i
                bs = PDENonStatioBatch(times_x_inside_batch=jnp.concatenate([t, x], axis=1), times_x_border_batch=txb)
                fac = []
                for fct in range(nf):
                    g_ = jnp.stack(jnp.meshgrid(tb[:, 0], *[bd[:, j, fct] for j in range(dsp)], indexing="ij"), axis=-1).reshape(-1, 1 + dsp)
                    fac.append(g_)
                bp = PDENonStatioBatch(times_x_inside_batch=jnp.concatenate([t, x], axis=1), times_x_border_batch=jnp.stack(fac, axis=-1))
            return ls.evaluate(params, bs)[1][tname], lp.evaluate(params, bp)[1][tname]
        args = (ls, lp, params, t, pins, free)
    elif term == "dyn":
        from jinns.loss import PDEStatio, PDENonStatio
        wk = cfg["w"]
        wd = jnp.array(0.75) if wk == "scalar" else jnp.array([0.5, 1.25])
        # a user equation with two residual components, written for both network kinds: it only uses u's value, so the separable
        # (grid) and the pointwise evaluation agree element by element
        if statio:
            class Eq(PDEStatio):
                def equation(self, xx, u, p):
                    v = u(xx, p)
                    return jnp.concatenate([psi(0)(v[..., 0:1]), psi(1)(2.0 * v[..., 0:1])], axis=-1)
        else:
            class Eq(PDENonStatio):
                def equation(self, tt, xx, u, p):
                    v = u(tt, xx, p)
                    return jnp.concatenate([psi(0)(v[..., 0:1]), psi(1)(2.0 * v[..., 0:1])], axis=-1)
        kw_d = dict(dynamic_loss=Eq(Tmax=1), params=params)
        if statio:
            ls = LossPDEStatio(u=sp, loss_weights=LossWeightsPDEStatio(dyn_loss=wd), **kw_d); lp = LossPDEStatio(u=pn, loss_weights=LossWeightsPDEStatio(dyn_loss=wd), **kw_d)
        else:
            ls = LossPDENonStatio(u=sp, loss_weights=LossWeightsPDENonStatio(dyn_loss=wd), **kw_d); lp = LossPDENonStatio(u=pn, loss_weights=LossWeightsPDENonStatio(dyn_loss=wd), **kw_d)
        def f(ls, lp, params, t, x):
            lp = eqx.tree_at(lambda l: l.loss_weights, lp, ls.loss_weights)
            if statio:
                bs = PDEStatioBatch(inside_batch=x, border_batch=None)
                gx = jnp.stack(jnp.meshgrid(*[x[:, j] for j in range(dsp)], indexing="ij"), axis=-1).reshape(-1, dsp)
                bp = PDEStatioBatch(inside_batch=gx, border_batch=None)
            else:
                bs = PDENonStatioBatch(times_x_inside_batch=jnp.concatenate([t, x], axis=1), times_x_border_batch=None)
                g_ = jnp.stack(jnp.meshgrid(t[:, 0], *[x[:, j] for j in range(dsp)], indexing="ij"), axis=-1).reshape(-1, 1 + dsp)
                bp = PDENonStatioBatch(times_x_inside_batch=g_, times_x_border_batch=None)
            return ls.evaluate(params, bs)[1][tname], lp.evaluate(params, bp)[1][tname]
        args = (ls, lp, params, t, x)
    elif term == "ic":
        u0 = lambda xx: psi(4)(0.5 * xx[..., 0] + 0.25 * xx[..., -1] * (dsp - 1) + 0.125)[..., None]
        ls, lp = mk_losses(dict(initial_condition_fun=u0))
        def f(ls, lp, params, t, x):
            lp = eqx.tree_at(lambda l: l.loss_weights, lp, ls.loss_weights)
            bs = PDENonStatioBatch(times_x_inside_batch=jnp.concatenate([t, x], axis=1), times_x_border_batch=None)
            gx = jnp.stack(jnp.meshgrid(*[x[:, j] for j in range(dsp)], indexing="ij"), axis=-1).reshape(-1, dsp)
            bp = PDENonStatioBatch(times_x_inside_batch=jnp.concatenate([jnp.zeros((gx.shape[0], 1)), gx], axis=1), times_x_border_batch=None)
            return ls.evaluate(params, bs)[1][tname], lp.evaluate(params, bp)[1][tname]
        args = (ls, lp, params, t, x)
    else:   # norm
        ns = cfg.get("ns", B)
        S = jnp.arange(1, ns * dsp + 1).reshape(ns, dsp) * 0.21; L = jnp.array(1.5)
        gS = jnp.stack(jnp.meshgrid(*[S[:, j] for j in range(dsp)], indexing="ij"), axis=-1).reshape(-1, dsp)
        ls, _ = mk_losses(dict(norm_samples=S, norm_int_length=L))
        _, lp = mk_losses(dict(norm_samples=gS, norm_int_length=L))
        def f(ls, lp, params, t, x):
            # the pointwise term integrates over the flattened grid of the separable term's samples
            Ss = ls.norm_samples
            g_ = jnp.stack(jnp.meshgrid(*[Ss[:, j] for j in range(dsp)], indexing="ij"), axis=-1).reshape(-1, dsp)
            lp2 = eqx.tree_at(lambda l: (l.norm_samples, l.norm_int_length, l.loss_weights.norm_loss), lp, (g_, ls.norm_int_length, ls.loss_weights.norm_loss))
            if statio:
                bs = PDEStatioBatch(inside_batch=x, border_batch=None); bp = bs
            else:
                bs = PDENonStatioBatch(times_x_inside_batch=jnp.concatenate([t, x], axis=1), times_x_border_batch=None); bp = bs
            return ls.evaluate(params, bs)[1][tname], lp2.evaluate(params, bp)[1][tname]
        args = (ls, lp, params, t, x)
    name = f"term/{term}/{'statio' if statio else 'nonstatio'}/d{dsp}/B{B}" + (f"/m{mt}dim{bdim}" if bdim is not None else "") + (f"/{cfg['w']}" if term == "dyn" else "") + (f"/ns{cfg['ns']}" if cfg.get("ns") else "")
    tr = R.trace(name, f, args, key=f"term:{term}:raises")
    if tr is None: return

    def share(A):
        return []

    def goals(A, O):
        a, b = O
        return [(f"{tname}: separable (grid) term == pointwise term on the flattened grid", eq(a[()], b[()]))]

    def assume_shared(A, O):
        # the two loss objects are separate arguments: their weight leaves denote the same user weight
        ls_, lp_ = A[0], A[1]
        la = [l for l in jax.tree_util.tree_leaves(ls_.loss_weights, is_leaf=lambda z: isinstance(z, np.ndarray)) if isinstance(l, np.ndarray)]
        lb = [l for l in jax.tree_util.tree_leaves(lp_.loss_weights, is_leaf=lambda z: isinstance(z, np.ndarray)) if isinstance(l, np.ndarray)]
        return [eq(p, q) for x_, y_ in zip(la, lb) for p, q in zip(x_.flat, y_.flat)]

    def twins(A, O):
        a, b = O
        return [(f"{tname}: separable term == 2 * pointwise term", eq(a[()], mul(const(2, "Real"), b[()])))]

    R.check(name, tr, goals, twin_fn=twins, key_fn=lambda p_, g: f"term:{term}:{'statio' if statio else 'nonstatio'}:d{dsp}")

"""C10 -- network wrappers honour their calling and output conventions."""
import itertools
import numpy as np
import jax, jax.numpy as jnp, equinox as eqx
from fractions import Fraction
from .. import terms as tm
from ..terms import const, add, mul, neg, sub, eq, uf
from ..stubs import phi

INFO = dict(
    bounds=dict(quick="real create_PINN / create_SPINN / create_HYPERPINN MLPs (eqx.nn.Linear) with 1 hidden layer of width 2-3 (non-square), outputs <= 3, input dimension <= 3, embedding r <= 2, m <= 2, batch 2; uninterpreted activation; input/output transforms reading the inputs and the equation parameters",
                thorough="same plus 2 hidden layers, d = 3 separable networks and 3 designated hyper-parameters"),
    outside=["wider/deeper networks", "floating-point rounding"],
    assumptions=["floats are mathematical reals", "activation = uninterpreted smooth function phi (the wrappers never look inside it)"],
)


def configs(tier):
    out = []
    for eq_type, dim_x in (("ODE", 0), ("statio_PDE", 2), ("nonstatio_PDE", 1), ("nonstatio_PDE", 2)):
        for n_out in (1, 3):
            for tf in ("none", "both"):
                out.append(dict(net="pinn", eq_type=eq_type, dim_x=dim_x, n_out=n_out, tf=tf, hidden=1))
        out.append(dict(net="pinn_shared", eq_type=eq_type, dim_x=dim_x, n_out=3, tf="both", hidden=1))
        out.append(dict(net="pinn_shared", eq_type=eq_type, dim_x=dim_x, n_out=3, tf="both", hidden=1, int_slice=True))
        if dim_x != 1:        # the last output selected by the negative index -1
            out.append(dict(net="pinn_shared", eq_type=eq_type, dim_x=dim_x, n_out=3, tf="both", hidden=1, int_slice="neg"))
        # an output transform that couples the components of the common network (component c reads component c-1): the
        # restriction to the wrapper's own slice comes AFTER the transform
        out.append(dict(net="pinn_shared", eq_type=eq_type, dim_x=dim_x, n_out=3, tf="coupled", hidden=1, int_slice=(dim_x == 1)))
    if tier == "thorough":
        out.append(dict(net="pinn", eq_type="nonstatio_PDE", dim_x=2, n_out=2, tf="both", hidden=2))
    for eq_type, d in (("statio_PDE", 1), ("statio_PDE", 2), ("nonstatio_PDE", 2)) + ((("statio_PDE", 3), ("nonstatio_PDE", 3)) if tier == "thorough" else (("nonstatio_PDE", 3),)):
        for (r, m) in ((1, 1), (2, 1), (2, 2)):
            if tier == "quick" and d == 3 and (r, m) != (2, 2): continue
            out.append(dict(net="spinn", eq_type=eq_type, d=d, r=r, m=m))
    for eq_type, dim_x in (("ODE", 0), ("statio_PDE", 2), ("nonstatio_PDE", 1)):
        for hp in (["nu"], ["nu", "D"], ["D", "nu"]) + ((["rho", "D", "nu"],) if tier == "thorough" else ()):
            out.append(dict(net="hyper", eq_type=eq_type, dim_x=dim_x, hp=hp, n_out=2, shared=(len(hp) == 2 and hp[0] == "D")))
    out.append(dict(net="static"))
    return out


def lin(W, b, z):
    # bias first, then the products from the last input to the first: deliberately NOT the association order of
    # dot_general, so that agreement is decided by the solver and not by hash-consing
    return [tm.ssum([b[i]] + [mul(W[i, j], z[j]) for j in reversed(range(W.shape[1]))]) for i in range(W.shape[0])]


def mlp_fwd(layers, z):
    """layers: list of (W, b) | None (activation)"""
    for l in layers:
        if l is None: z = [uf("phi0", t) for t in z]
        else: z = lin(l[0], l[1], z)
    return z


def layer_list(mlp_params):
    """symbolic _MLP params -> [(W,b) | None] following the eqx_list order"""
    out = []
    for l in mlp_params.layers if hasattr(mlp_params, "layers") else mlp_params:
        if l is None or not hasattr(l, "weight"): out.append(None)
        else: out.append((l.weight, l.bias))
    return out


def run(cfg, R):
    import jinns
    from jinns.parameters import Params
    from jinns.utils._pinn import create_PINN, PINN
    from jinns.utils._spinn import create_SPINN
    from jinns.utils._hyperpinn import create_HYPERPINN
    net = cfg["net"]
    key = jax.random.PRNGKey(9)
    if net == "static":
        if R.replay is not None: R.replay_result = dict(reproduced=None, note="static facts"); return
        R.note(functions=["jinns.utils._pinn.create_PINN (slice_solution int -> slice)", "create_HYPERPINN (same)"])
        u = create_PINN(key, ((eqx.nn.Linear, 2, 3), (phi,), (eqx.nn.Linear, 3, 3)), "statio_PDE", 2, slice_solution=1)
        ok = u.slice_solution == slice(1, 2)
        R.records.append(dict(prog="static", goal="create_PINN(slice_solution=1).slice_solution == slice(1, 2)", verdict="structural" if ok else "sat", phase="static", ms=0.0))
        if not ok: R._record_violation("static:slice_solution", "static", "slice_solution", {}, note=str(u.slice_solution))
        u2 = create_PINN(key, ((eqx.nn.Linear, 2, 3), (phi,), (eqx.nn.Linear, 3, 3)), "statio_PDE", 2)
        ok = u2.slice_solution == slice(0, 3)
        R.records.append(dict(prog="static", goal="default slice_solution is the whole output", verdict="structural" if ok else "sat", phase="static", ms=0.0))
        if not ok: R._record_violation("static:slice_solution-default", "static", "slice_solution", {}, note=str(u2.slice_solution))
        return

    if net in ("pinn", "pinn_shared"):
        eq_type, dim_x, n_out, tf, hidden = cfg["eq_type"], cfg["dim_x"], cfg["n_out"], cfg["tf"], cfg["hidden"]
        d_in = {"ODE": 1, "statio_PDE": dim_x, "nonstatio_PDE": 1 + dim_x}[eq_type]
        widths = [d_in] + [3, 2][:hidden] + [n_out]
        eqx_list = []
        for a, b in zip(widths[:-1], widths[1:]):
            eqx_list.append((eqx.nn.Linear, a, b)); eqx_list.append((phi,))
        eqx_list = tuple(eqx_list[:-1])
        if tf == "both":
            it = lambda i, p: i * p.eq_params["alpha"] + 0.5
            ot = lambda i, o, p: o * p.eq_params["beta"] + i[0]
        elif tf == "coupled":
            it = lambda i, p: i * p.eq_params["alpha"] + 0.5
            ot = lambda i, o, p: o * p.eq_params["beta"] + jnp.roll(o, 1) + i[0]
        else:
            it = ot = None
        int_slice = cfg.get("int_slice", False)
        shared = ((jnp.s_[0:2], (jnp.s_[-1] if int_slice == "neg" else jnp.s_[2])) if int_slice else (jnp.s_[0:1], jnp.s_[1:3])) if net == "pinn_shared" else None
        us = create_PINN(key, eqx_list, eq_type, dim_x, input_transform=it, output_transform=ot, shared_pinn_outputs=shared)
        ulist = us if shared else [us]
        params = Params(nn_params=ulist[0].init_params(), eq_params={"alpha": jnp.array(0.7), "beta": jnp.array(1.3)})
        t = jnp.array([0.3]); x = jnp.arange(1, dim_x + 1) * 0.25
        R.note(functions=["jinns.utils._pinn.create_PINN", "PINN.__call__", "PINN.eval_nn", "_MLP.__call__"])

        def call(u, t, x, p):
            return u(t, p) if eq_type == "ODE" else u(x, p) if eq_type == "statio_PDE" else u(t, x, p)

        def f(params, t, x):
            outs = [call(u, t, x, params) for u in ulist]
            extra = {}
            if eq_type == "ODE":
                extra["scalar_t"] = ulist[0](t[0], params)          # scalar time
            if tf == "none":
                extra["bare"] = call(ulist[0], t, x, params.nn_params)   # bare network parameters
            return outs, extra
        name = f"{net}/{eq_type}/dx{dim_x}/out{n_out}/{tf}/h{hidden}" + ("/int-slice" + ("-neg" if cfg.get("int_slice") == "neg" else "") if cfg.get("int_slice") else "")
        tr = R.trace(name, f, (params, t, x), key=f"{net}:raises")
        if tr is None: return

        def oracle(A, variant=None):
            p, t_, x_ = A
            inputs = {"ODE": [t_[0]], "statio_PDE": list(x_), "nonstatio_PDE": [t_[0]] + list(x_)}[eq_type]
            if tf in ("both", "coupled"):
                al, be = p.eq_params["alpha"][()], p.eq_params["beta"][()]
                zin = [add(mul(i, al), const(Fraction(1, 2), "Real")) for i in inputs]
            else:
                zin = inputs
            o = mlp_fwd(layer_list(p.nn_params), zin)
            if tf in ("both", "coupled"):
                first = inputs[0] if variant != "transformed_in" else zin[0]
                raw = list(o)
                o = [add(mul(v, be), first) for v in raw]
                if tf == "coupled":
                    o = [add(v, raw[(c - 1) % len(raw)]) for c, v in enumerate(o)]
            return o

        def goals(A, O, variant=None):
            outs, extra = O
            full = oracle(A, variant)
            G = []
            slices = ([slice(0, 2), slice(2, 3)] if int_slice else [slice(0, 1), slice(1, 3)]) if shared else [slice(None)]
            for k, (o, sl) in enumerate(zip(outs, slices)):
                want = full[sl]
                G.append((f"network {k}: output has a trailing component axis of the declared size", const(tuple(o.shape) == (len(want),), "Bool")))
                if tuple(o.shape) == (len(want),):
                    G.append((f"network {k}: u == output_transform(inputs, net(input_transform(inputs, params)), params)[output slice]",
                              tm.conj([eq(o[c], want[c]) for c in range(len(want))])))
            if "scalar_t" in extra:
                G.append(("scalar time == length-one time", tm.conj([eq(a, b) for a, b in zip(extra["scalar_t"].flat, outs[0].flat)])))
            if "bare" in extra:
                G.append(("bare network parameters == full parameter object (no transform reads eq_params)", tm.conj([eq(a, b) for a, b in zip(extra["bare"].flat, outs[0].flat)])))
            return G

        def twins(A, O):
            tw = []
            if tf in ("both", "coupled"):
                tw += [g for g in goals(A, O, variant="transformed_in") if "output_transform" in g[0]][:1]
            outs, extra = O
            tw.append(("network 0 output == 0", tm.conj([eq(a, const(0, "Real")) for a in outs[0].flat])))
            return tw
        R.check(name, tr, goals, twin_fn=twins, hint_spec=[(r".", ("range", -1, 1))],          # small hints: nested stub polynomials stay O(1), so the tolerant concrete equality can tell the twin apart
                key_fn=lambda p_, g: f"{net}:" + g.split(":")[-1][:40])
        return

    if net == "spinn":
        eq_type, d, r, m = cfg["eq_type"], cfg["d"], cfg["r"], cfg["m"]
        B = 2
        eqx_list = ((eqx.nn.Linear, 1, 2), (phi,), (eqx.nn.Linear, 2, r * m))
        u = create_SPINN(key, d, r, eqx_list, eq_type, m)
        params = Params(nn_params=u.init_params(), eq_params={"alpha": jnp.array(0.7)})
        if eq_type == "statio_PDE":
            x = jnp.arange(1, B * d + 1).reshape(B, d) * 0.125; t = None
            f = lambda params, t, x: (u(x, params), u(x, params.nn_params))
        else:
            x = jnp.arange(1, B * (d - 1) + 1).reshape(B, d - 1) * 0.125; t = jnp.arange(1, B + 1).reshape(B, 1) * 0.3
            f = lambda params, t, x: (u(t, x, params), u(t, x, params.nn_params))
        name = f"spinn/{eq_type}/d{d}/r{r}/m{m}"
        R.note(functions=["jinns.utils._spinn.create_SPINN", "SPINN.__call__", "SPINN.eval_nn", "_SPINN.__call__"])
        tr = R.trace(name, f, (params, t, x), key="spinn:raises")
        if tr is None: return

        def oracle(A, variant=None):
            p, t_, x_ = A
            cols = []       # cols[dim][i] = coordinate value of batch row i along separable dimension dim (time first)
            if eq_type == "nonstatio_PDE": cols.append([t_[i, 0] for i in range(B)])
            for j in range(x_.shape[1]): cols.append([x_[i, j] for i in range(B)])
            feats = []      # feats[dim][i] = f_dim(coordinate)  (r*m values)
            for dim in range(d):
                layers = layer_list(p.nn_params.separated_mlp[dim])
                feats.append([mlp_fwd(layers, [cols[dim][i]]) for i in range(B)])
            out = np.empty((B,) * d + (m,), dtype=object)
            for idx in itertools.product(range(B), repeat=d):
                for k in range(m):
                    s_ = const(0, "Real")
                    for rr in range(r):
                        pr = const(1, "Real")
                        for dim in range(d):
                            ch = k * r + rr if variant != "interleaved" else rr * m + k
                            pr = mul(pr, feats[dim][idx[dim]][ch])
                        s_ = add(s_, pr)
                    out[idx + (k,)] = s_
            return out

        def goals(A, O, variant=None):
            o, obare = O
            want = oracle(A, variant)
            G = [("output shape == (batch,)*d + (m,)", const(tuple(o.shape) == tuple(want.shape), "Bool"))]
            if tuple(o.shape) == tuple(want.shape):
                G.append(("out[i1..id, k] == sum_r prod_d f_d(x_{i_d,d})[k*r + r'] (grid axes: time first, then space)", tm.conj([eq(a, b) for a, b in zip(o.flat, want.flat)])))
            G.append(("bare network parameters == full parameter object", tm.conj([eq(a, b) for a, b in zip(o.flat, obare.flat)])))
            return G

        def twins(A, O):
            o, _ = O
            tw = []
            if r > 1 and m > 1:
                tw += [g for g in goals(A, O, variant="interleaved") if g[0].startswith("out[")]
            tw.append(("output == 0", tm.conj([eq(a, const(0, "Real")) for a in o.flat])))
            return tw
        R.check(name, tr, goals, twin_fn=twins, key_fn=lambda p_, g: "spinn:" + g[:30])
        return

    if net == "hyper":
        eq_type, dim_x, hp, n_out, shared = cfg["eq_type"], cfg["dim_x"], cfg["hp"], cfg["n_out"], cfg["shared"]
        d_in = {"ODE": 1, "statio_PDE": dim_x, "nonstatio_PDE": 1 + dim_x}[eq_type]
        eqx_list = ((eqx.nn.Linear, d_in, 3), (phi,), (eqx.nn.Linear, 3, n_out))         # non-square layers
        eqx_list_hyper = ((eqx.nn.Linear, 1, 2), (phi,), (eqx.nn.Linear, 2, 1))            # sizes are fixed by create_HYPERPINN
        sh = (jnp.s_[0:1], jnp.s_[1:2]) if shared else None
        us = create_HYPERPINN(key, eqx_list, eq_type, hyperparams=list(hp), hypernet_input_size=len(hp), dim_x=dim_x,
                              eqx_list_hyper=eqx_list_hyper, shared_pinn_outputs=sh)
        ulist = us if shared else [us]
        # eq_params inserted in an order that differs from the designated order
        eqp = {}
        for k_, v_ in (("D", 0.4), ("nu", 0.9), ("rho", 1.7)): eqp[k_] = jnp.array(v_)
        params = Params(nn_params=ulist[0].init_params(), eq_params=eqp)
        t = jnp.array([0.3]); x = jnp.arange(1, dim_x + 1) * 0.25
        def call(u, t, x, p):
            return u(t, p) if eq_type == "ODE" else u(x, p) if eq_type == "statio_PDE" else u(t, x, p)
        f = lambda params, t, x: [call(u, t, x, params) for u in ulist]
        name = f"hyper/{eq_type}/dx{dim_x}/hp{'-'.join(hp)}" + ("/shared" if shared else "")
        R.note(functions=["jinns.utils._hyperpinn.create_HYPERPINN", "HYPERPINN.eval_nn", "HYPERPINN._hyper_to_pinn", "_get_param_nb"])
        tr = R.trace(name, f, (params, t, x), key="hyper:raises")
        if tr is None: return
        inner_shapes = [(3, d_in), (3,), (n_out, 3), (n_out,)]            # W1, b1, W2, b2 : parameter-leaf order

        def oracle(A, variant=None):
            p, t_, x_ = A
            inputs = {"ODE": [t_[0]], "statio_PDE": list(x_), "nonstatio_PDE": [t_[0]] + list(x_)}[eq_type]
            order = list(hp) if variant != "dict_order" else sorted(hp)
            hin = [p.eq_params[k][()] for k in order]
            hout = mlp_fwd(layer_list(p.nn_params), hin)
            shapes = inner_shapes if variant != "b_first" else [inner_shapes[1], inner_shapes[0], inner_shapes[3], inner_shapes[2]]
            leaves = []; pos = 0
            for shp in shapes:
                sz = int(np.prod(shp)); leaves.append(np.array(hout[pos:pos + sz], dtype=object).reshape(shp)); pos += sz
            if variant == "b_first": leaves = [leaves[1], leaves[0], leaves[3], leaves[2]]
            W1, b1, W2, b2 = leaves
            return mlp_fwd([(W1, b1), None, (W2, b2)], inputs)

        def goals(A, O, variant=None):
            full = oracle(A, variant)
            slices = [slice(0, 1), slice(1, 2)] if shared else [slice(None)]
            G = []
            for k, (o, sl) in enumerate(zip(O, slices)):
                want = full[sl]
                G.append((f"network {k}: shape", const(tuple(o.shape) == (len(want),), "Bool")))
                if tuple(o.shape) == (len(want),):
                    G.append((f"network {k}: inner weights = hyper-network(designated eq params in the designated order), split in parameter-leaf order",
                              tm.conj([eq(o[c], want[c]) for c in range(len(want))])))
            return G

        def twins(A, O):
            tw = []
            if list(hp) != sorted(hp):
                tw += [g for g in goals(A, O, variant="dict_order") if "inner weights" in g[0]][:1]
            tw += [g for g in goals(A, O, variant="b_first") if "inner weights" in g[0]][:1]
            return tw
        R.check(name, tr, goals, twin_fn=twins, key_fn=lambda p_, g: "hyper:" + g.split(":")[-1][:40])

"""C03 -- total = sum of terms; unconfigured terms are 0; dynamic term = batch-mean weighted squared residual."""
import numpy as np
import jax, jax.numpy as jnp, equinox as eqx
from fractions import Fraction
from .. import terms as tm
from ..terms import const, add, mul, neg, sub, eq, uf
from ..harness import Traced
from ..nets import mk_pinn, D, unit, sq, mean
from ..stubs import psi, PSI

INFO = dict(
    bounds=dict(quick="batch sizes 1..3 (halves: 2), d<=2, 1..3 residual components, scalar and per-component weights, Poly(2)+Ridge(1) network",
                thorough="batch sizes 1..4, d<=2, 1..3 residual components, scalar and per-component weights, Poly(2)+Ridge(1..2) network"),
    outside=["batches larger than 4 points", "user equations that are not rho_c(linear form of u, du/dt or du/dx0, point, theta) with rho_c uninterpreted smooth functions",
             "floating-point rounding"],
    assumptions=["floats are mathematical reals", "user residual components are uninterpreted smooth functions psi_c of a linear form"],
)

KINDS = ("ode", "statio", "nonstatio")


def configs(tier):
    out = []
    Bs = (1, 2, 3) if tier == "quick" else (1, 2, 3, 4)
    for kind in KINDS:
        for B in Bs:
            for nc in (1, 2, 3):
                for w in ("scalar", "vector"):
                    if w == "vector" and nc == 1: continue
                    if tier == "quick" and B == 3 and nc == 2: continue
                    d = 0 if kind == "ode" else (1 if (B + nc) % 2 else 2)
                    out.append(dict(kind=kind, B=B, nc=nc, w=w, d=d, extra=(B == 2), H=1 if tier == "quick" or B > 2 else 2))
        # observations carrying an observed equation parameter that the equation reads: the dynamic term must keep the caller's value
        out.append(dict(kind=kind, B=2, nc=2, w="vector", d=(0 if kind == "ode" else 1), extra=False, H=1, obs_theta=True))
        for B in (1, 2, 3):     # a one-component residual returned as a bare scalar (no component axis)
            out.append(dict(kind=kind, B=B, nc=1, w="scalar", d=(0 if kind == "ode" else 1), extra=False, H=1, scalar_res=True))
    return out


def build(cfg):
    """returns (f, args, meta) -- the real loss object evaluated on a batch."""
    import jinns
    from jinns.parameters import Params
    from jinns.loss import LossODE, LossPDEStatio, LossPDENonStatio, ODE, PDEStatio, PDENonStatio, \
        LossWeightsODE, LossWeightsPDEStatio, LossWeightsPDENonStatio
    from jinns.data._Batchs import ODEBatch, PDEStatioBatch, PDENonStatioBatch
    kind, B, nc, wk, d, extra = cfg["kind"], cfg["B"], cfg["nc"], cfg["w"], cfg["d"], cfg["extra"]
    w0 = jnp.array(0.75) if wk == "scalar" else jnp.arange(1, nc + 1) * 0.5
    _stack = jnp.stack
    if cfg.get("scalar_res"):
        class _J:       # the equation returns its single component as a scalar
            @staticmethod
            def stack(xs): return xs[0]
        jnp_ = _J
    else:
        jnp_ = jnp

    if kind == "ode":
        class UserODE(ODE):
            def equation(self, t, u, params):
                th = params.eq_params["theta"]
                du = jax.grad(lambda t: u(t, params)[0])(t)
                return jnp_.stack([psi(c)((1.0 + c) * (du if c == 0 else u(t, params)[0]) + 0.5 * t + (2.0 - c) * th) for c in range(nc)])
        u = mk_pinn(1, 1, "ODE", deg=2, H=cfg["H"])
        params = Params(nn_params=u.init_params(), eq_params={"theta": jnp.array(0.3)})
        dl = UserODE(Tmax=1)
        kw = dict(initial_condition=(0.25, 1.5)) if extra else {}
        loss = LossODE(u=u, dynamic_loss=dl, loss_weights=LossWeightsODE(dyn_loss=w0, initial_condition=jnp.array(1.25) if extra else 1.0),
                       params=params, **kw)
        batch = ODEBatch(temporal_batch=jnp.arange(1, B + 1) * 0.125)
    elif kind == "statio":
        class UserStatio(PDEStatio):
            def equation(self, x, u, params):
                th = params.eq_params["theta"]
                dux = jax.grad(lambda x: u(x, params)[0])(x)[0]
                return jnp_.stack([psi(c)((1.0 + c) * (dux if c == 0 else u(x, params)[0]) + 0.5 * x[0] + 0.25 * x[-1] * (d - 1) + (2.0 - c) * th) for c in range(nc)])
        u = mk_pinn(d, 1, "statio_PDE", deg=2, H=cfg["H"])
        params = Params(nn_params=u.init_params(), eq_params={"theta": jnp.array(0.3)})
        dl = UserStatio(Tmax=1)
        kw = dict(norm_samples=jnp.arange(1, 2 * d + 1).reshape(2, d) * 0.3, norm_int_length=jnp.array(1.5)) if extra else {}
        loss = LossPDEStatio(u=u, dynamic_loss=dl, loss_weights=LossWeightsPDEStatio(dyn_loss=w0, norm_loss=jnp.array(1.25) if extra else 1.0),
                             params=params, **kw)
        batch = PDEStatioBatch(inside_batch=jnp.arange(1, B * d + 1).reshape(B, d) * 0.125, border_batch=None)
    else:
        class UserNonStatio(PDENonStatio):
            def equation(self, t, x, u, params):
                th = params.eq_params["theta"]
                dut = jax.grad(lambda t: u(t, x, params)[0])(t)[0]
                return jnp_.stack([psi(c)((1.0 + c) * (dut if c == 0 else u(t, x, params)[0]) + 2.0 * t[0] + 3.0 * x[0] + 0.25 * x[-1] * (d - 1) + (2.0 - c) * th) for c in range(nc)])
        u = mk_pinn(1 + d, 1, "nonstatio_PDE", deg=2, H=cfg["H"])
        params = Params(nn_params=u.init_params(), eq_params={"theta": jnp.array(0.3)})
        dl = UserNonStatio(Tmax=1)
        kw = dict(initial_condition_fun=lambda x: psi(4)(x[0] * 0.5)) if extra else {}
        loss = LossPDENonStatio(u=u, dynamic_loss=dl, loss_weights=LossWeightsPDENonStatio(dyn_loss=w0, initial_condition=jnp.array(1.25) if extra else 1.0),
                                params=params, **kw)
        batch = PDENonStatioBatch(times_x_inside_batch=jnp.arange(1, B * (d + 1) + 1).reshape(B, d + 1) * 0.125, times_x_border_batch=None)
    if cfg.get("obs_theta"):
        d_in_ = {"ode": 1, "statio": d, "nonstatio": 1 + d}[kind]
        obs = {"pinn_in": jnp.arange(1, 3 * d_in_ + 1).reshape(3, d_in_) * 0.11, "val": jnp.arange(1, 4).reshape(3, 1) * 0.25,
               "eq_params": {"theta": jnp.arange(1, 4).reshape(3, 1) * 0.5}}
        batch = eqx.tree_at(lambda b: b.obs_batch_dict, batch, obs, is_leaf=lambda x: x is None)
    return loss, params, batch, u


def run(cfg, R):
    kind, B, nc, wk, d, extra = cfg["kind"], cfg["B"], cfg["nc"], cfg["w"], cfg["d"], cfg["extra"]
    loss, params, batch, u = build(cfg)
    d_in = {"ode": 1, "statio": d, "nonstatio": 1 + d}[kind]
    bfield = {"ode": "temporal_batch", "statio": "inside_batch", "nonstatio": "times_x_inside_batch"}[kind]

    def with_w(loss, w):
        return eqx.tree_at(lambda l: l.loss_weights.dyn_loss, loss, w)

    def with_b(batch, b):
        return eqx.tree_at(lambda bb: getattr(bb, bfield), batch, b)

    def f(loss, params, batch, w2):
        total, terms = loss.evaluate(params, batch)
        out = dict(total=total, terms=terms)
        w1 = loss.loss_weights.dyn_loss
        out["dyn_w2"] = with_w(loss, w2).evaluate(params, batch)[1]["dyn_loss"]
        out["dyn_w1+w2"] = with_w(loss, w1 + w2).evaluate(params, batch)[1]["dyn_loss"]
        b = getattr(batch, bfield)
        if B > 1:
            out["dyn_rot"] = loss.evaluate(params, with_b(batch, jnp.roll(b, 1, axis=0)))[1]["dyn_loss"]
        if B % 2 == 0:
            h = B // 2
            out["dyn_h1"] = loss.evaluate(params, with_b(batch, b[:h]))[1]["dyn_loss"]
            out["dyn_h2"] = loss.evaluate(params, with_b(batch, b[h:]))[1]["dyn_loss"]
        return out

    w2 = loss.loss_weights.dyn_loss * 0 + 0.3
    tr = Traced(f, (loss, params, batch, w2))
    R.note(functions=["jinns.loss.%s.evaluate" % {"ode": "LossODE", "statio": "LossPDEStatio", "nonstatio": "LossPDENonStatio"}[kind],
                      "jinns.loss._loss_utils.dynamic_loss_apply", "jinns.loss.DynamicLoss.evaluate (user equation)",
                      "jinns.parameters._derivative_keys._set_derivatives"])

    def residual_sq_sum(A, i, w):
        loss_, p, batch_, _ = A
        net = p.nn_params; th = p.eq_params["theta"][()]
        b = getattr(batch_, bfield)
        z = [b[i]] if kind == "ode" else list(b[i])
        U = D(net, z)
        tot = const(0, "Real")
        for c in range(nc):
            if kind == "ode":
                lead = D(net, z, (1,)) if c == 0 else U
                arg = add(add(mul(const(1 + c, "Real"), lead), mul(const(Fraction(1, 2), "Real"), z[0])), mul(const(2 - c, "Real"), th))
            elif kind == "statio":
                lead = D(net, z, unit(d, 0, 1)) if c == 0 else U
                arg = add(mul(const(1 + c, "Real"), lead), mul(const(Fraction(1, 2), "Real"), z[0]))
                arg = add(arg, mul(const(Fraction(d - 1, 4), "Real"), z[-1]))
                arg = add(arg, mul(const(2 - c, "Real"), th))
            else:
                lead = D(net, z, unit(1 + d, 0, 1)) if c == 0 else U
                arg = add(mul(const(1 + c, "Real"), lead), add(mul(const(2, "Real"), z[0]), mul(const(3, "Real"), z[1])))
                arg = add(arg, mul(const(Fraction(d - 1, 4), "Real"), z[-1]))
                arg = add(arg, mul(const(2 - c, "Real"), th))
            r = uf(f"psi{c}_0", arg)
            wc = w[c] if w.ndim == 1 else w[()]
            tot = add(tot, mul(wc, sq(r)))
        return tot

    def goals(A, O):
        loss_, p, batch_, w2_ = A
        w1 = loss_.loss_weights.dyn_loss
        terms = {k: v[()] for k, v in O["terms"].items()}
        g = [("total == sum of returned terms", eq(O["total"][()], tm.ssum(list(terms.values()))))]
        configured = {"dyn_loss"} | ({"initial_condition"} if extra and kind != "statio" else set()) | ({"norm_loss"} if extra and kind == "statio" else set())
        if cfg.get("obs_theta"): configured |= {"observations"}
        for k, v in terms.items():
            if k not in configured:
                g.append((f"unconfigured term {k} == 0", eq(v, const(0, "Real"))))
        orc = mean([residual_sq_sum(A, i, w1) for i in range(B)])
        g.append(("dyn_loss == (1/B) sum_i sum_c w_c rho_c(arg_i)^2", eq(terms["dyn_loss"], orc)))
        g.append(("dyn_loss additive in its weight", eq(O["dyn_w1+w2"][()], add(terms["dyn_loss"], O["dyn_w2"][()]))))
        if B > 1:
            g.append(("dyn_loss invariant under rotation of the batch", eq(O["dyn_rot"][()], terms["dyn_loss"])))
        if B % 2 == 0:
            g.append(("dyn_loss == average over two halves", eq(terms["dyn_loss"], mul(const(Fraction(1, 2), "Real"), add(O["dyn_h1"][()], O["dyn_h2"][()])))))
        return g

    def twins(A, O):
        loss_, p, batch_, w2_ = A
        w1 = loss_.loss_weights.dyn_loss
        terms = {k: v[()] for k, v in O["terms"].items()}
        tw = [("dyn_loss == SUM (not mean) of weighted squared residuals" if B > 1 else "dyn_loss == 2 * oracle",
               eq(terms["dyn_loss"], tm.ssum([residual_sq_sum(A, i, w1) for i in range(B)]) if B > 1 else
                  mul(const(2, "Real"), residual_sq_sum(A, 0, w1))))]
        if nc > 1 and wk == "vector":
            wr = w1[::-1]
            tw.append(("dyn_loss == oracle with component weights reversed", eq(terms["dyn_loss"], mean([residual_sq_sum(A, i, wr) for i in range(B)]))))
        return tw

    R.check(f"{kind}/B{B}/nc{nc}/{wk}/d{d}" + ("/extra" if extra else "") + ("/scalar-residual" if cfg.get("scalar_res") else "") + ("/obs-theta" if cfg.get("obs_theta") else ""), tr, goals, twin_fn=twins,
            key_fn=lambda prog, g: f"{kind}:{g}" + (":scalar-residual" if cfg.get("scalar_res") else ""))

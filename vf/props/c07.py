"""C07 -- solve() is observationally the textbook mini-batch training loop."""
import numpy as np
import jax, jax.numpy as jnp, equinox as eqx, optax
from .. import terms as tm
from ..terms import const, eq
from ..harness import flat_terms, _is_objarr
from ..nets import mk_pinn
from ..stubs import psi

INFO = dict(
    bounds=dict(quick="n_iter <= 3; stores of 3-4 points with batch sizes that do and do not divide them; loss kinds ODE / stationary / non-stationary; optimizers sgd, adam, chain(clip_by_global_norm, scale_by_schedule, scale(-1)); with/without parameter and observation generators; tracked-parameter specifications; one resumed run (2+2 iterations)",
                thorough="n_iter <= 5; stores up to 6 points; every optimizer x loss kind; resumed runs 2+3"),
    outside=["more iterations / larger stores", "sharded observation batches (python while loop path)", "the threefry stream (jax.random contracts)",
             "floating-point rounding (after k updates the parameters are degree-3^k polynomials of the inputs: both sides are built from the same primitives and mostly collapse structurally)"],
    assumptions=["jax.random.choice/split contracts", "reference loop = get_batch() of each generator, jax.value_and_grad(loss, has_aux=True), optimizer.update, optax.apply_updates, python lists for histories; like solve it draws one batch before its loop",
                 "adam's sqrt and division are uninterpreted atoms with their defining lemmas"],
)


def configs(tier):
    q = tier == "quick"
    out = []
    N = 3 if q else 5
    for kind in ("ode", "statio", "nonstatio"):
        for opt in ("sgd", "adam", "chain"):
            if q and (kind, opt) in (("statio", "adam"), ("nonstatio", "chain"), ("statio", "chain")): continue
            for (n, b) in ((4, 2), (3, 2)):
                if q and kind != "ode" and (n, b) == (4, 2): continue
                out.append(dict(kind=kind, opt=opt, n=n, b=b, n_iter=N if opt == "sgd" else min(N, 2 if q else 3), aux=False, tracked="theta", resume=False, x64=True))
    out.append(dict(kind="ode", opt="sgd", n=4, b=2, n_iter=2, aux=True, tracked="theta", resume=False, x64=True))
    out.append(dict(kind="ode", opt="adam", n=3, b=2, n_iter=2, aux=True, tracked="nn", resume=False, x64=True))
    out.append(dict(kind="ode", opt="adam", n=4, b=2, n_iter=2, aux=False, tracked="theta", resume=True, x64=True))
    out.append(dict(kind="ode", opt="chain", n=3, b=2, n_iter=2, aux=False, tracked="none", resume=True, x64=True))
    out.append(dict(kind="statio", opt="sgd", n=3, b=3, n_iter=2, aux=False, tracked="all", resume=True, x64=True))
    # a piecewise-linear (ReLU-like) network part: the gradient of its coefficient is EXACTLY zero on batches left of the kink, while
    # adam's moment estimates still move it -- the optimizer's update must be applied as is
    out.append(dict(kind="ode", opt="adam", n=4, b=2, n_iter=3, aux=False, tracked="theta", resume=False, relu=True, x64=True))
    if not q:
        out.append(dict(kind="ode", opt="chain", n=4, b=2, n_iter=3, aux=False, tracked="theta", resume=False, relu=True, x64=True))
    return out


def build(cfg):
    import jinns
    from jinns.parameters import Params
    from jinns.parameters._derivative_keys import DerivativeKeysODE, DerivativeKeysPDEStatio, DerivativeKeysPDENonStatio
    from jinns.loss import LossODE, LossPDEStatio, LossPDENonStatio, ODE, PDEStatio, PDENonStatio
    import jinns.data._DataGenerators as DG
    kind, n, b = cfg["kind"], cfg["n"], cfg["b"]
    key = jax.random.PRNGKey(7)
    relu = cfg.get("relu", False)
    ot_theta = (lambda i, o, p: o * p.eq_params["theta"]) if not relu else \
               (lambda i, o, p: o * p.eq_params["theta"] + p.eq_params["gamma"] * jnp.maximum(i[0], 0.0))
    d_in = {"ode": 1, "statio": 1, "nonstatio": 2}[kind]
    eq_type = {"ode": "ODE", "statio": "statio_PDE", "nonstatio": "nonstatio_PDE"}[kind]
    u = mk_pinn(d_in, 1, eq_type, deg=1, H=1, ot=ot_theta)
    xk = (lambda v: {"gamma": v}) if relu else (lambda v: {})
    params = Params(nn_params=u.init_params(), eq_params={"theta": jnp.array(0.7), "kappa": jnp.array(1.3), **xk(jnp.array(0.9))})
    both = Params(nn_params=True, eq_params={"theta": True, "kappa": False, **xk(True)})
    sc = lambda v: jnp.ravel(v)[0]
    if kind == "ode":
        class Eq(ODE):
            def equation(self, t, u, p): return jax.grad(lambda t: u(t, p)[0])(t) + sc(p.eq_params["kappa"]) * u(t, p)
        dk = DerivativeKeysODE(dyn_loss=both, observations=both, initial_condition=both)
        loss = LossODE(u=u, dynamic_loss=Eq(Tmax=1), initial_condition=(jnp.array(0.25), jnp.array([0.5])), derivative_keys=dk, params=params)
        data = DG.DataGeneratorODE(key, n, 0.0, 1.0, b)
        nb = b
    elif kind == "statio":
        class Eq(PDEStatio):
            def equation(self, x, u, p): return sc(p.eq_params["kappa"]) * jax.grad(lambda x: u(x, p)[0])(x)[0:1] + u(x, p)
        dk = DerivativeKeysPDEStatio(dyn_loss=both, observations=both, boundary_loss=both, norm_loss=both)
        loss = LossPDEStatio(u=u, dynamic_loss=Eq(Tmax=1), omega_boundary_fun=lambda dx: 0.5, omega_boundary_condition="dirichlet", derivative_keys=dk, params=params)
        data = DG.CubicMeshPDEStatio(key=key, n=n, nb=2, omega_batch_size=b, omega_border_batch_size=2, dim=1, min_pts=(0.0,), max_pts=(1.0,))
        nb = b
    else:
        class Eq(PDENonStatio):
            def equation(self, t, x, u, p): return jax.grad(lambda t: u(t, x, p)[0])(t) + sc(p.eq_params["kappa"]) * u(t, x, p)
        dk = DerivativeKeysPDENonStatio(dyn_loss=both, observations=both, boundary_loss=both, norm_loss=both, initial_condition=both)
        loss = LossPDENonStatio(u=u, dynamic_loss=Eq(Tmax=1), initial_condition_fun=lambda x: 0.25 * x[0], derivative_keys=dk, params=params)
        data = DG.CubicMeshPDENonStatio(key=key, n=n, nb=None, nt=n, omega_batch_size=b, omega_border_batch_size=None, temporal_batch_size=b, dim=1,
                                        min_pts=(0.0,), max_pts=(1.0,), tmin=0.0, tmax=1.0, cartesian_product=False)
        nb = b
    param_data = obs_data = None
    if cfg["aux"]:
        k1, k2 = jax.random.split(key)
        param_data = DG.DataGeneratorParameter(k1, n + 1, nb, param_ranges={"kappa": (1.0, 2.0)})
        obs_data = DG.DataGeneratorObservations(k2, nb, jnp.arange(1, (n + 2) * d_in + 1, dtype=jnp.float64).reshape(n + 2, d_in) * 0.1,
                                                jnp.arange(1, n + 3, dtype=jnp.float64).reshape(n + 2, 1) * 0.3)
    tr = cfg["tracked"]
    tracked = {"none": None,
               "theta": Params(nn_params=None, eq_params={"theta": True, "kappa": None, **xk(True)}),
               "nn": jax.tree.map(lambda _: True, Params(nn_params=params.nn_params, eq_params={"theta": None, "kappa": None}), is_leaf=lambda x: x is None) if False else None,
               "all": None}[tr] if tr in ("none", "theta") else None
    if tr == "nn":
        tracked = Params(nn_params=jax.tree.map(lambda _: True, params.nn_params), eq_params={"theta": None, "kappa": None})
    if tr == "all":
        tracked = Params(nn_params=jax.tree.map(lambda _: True, params.nn_params), eq_params={"theta": True, "kappa": True})
    return params, data, loss, param_data, obs_data, tracked


def make_opt(name, lr, sched):
    if name == "sgd": return optax.sgd(lr)
    if name == "adam": return optax.adam(lr)
    return optax.chain(optax.clip_by_global_norm(1.5), optax.scale_by_schedule(lambda count: sched[jnp.minimum(count, sched.shape[0] - 1)]), optax.scale(-1.0))


def reference(n_iter, params, data, loss, optimizer, opt_state=None, tracked=None, param_data=None, obs_data=None):
    """the textbook loop, from public pieces only"""
    from jinns.data import append_param_batch, append_obs_batch
    if opt_state is None: opt_state = optimizer.init(params)
    def draw(data, param_data, obs_data):
        data, batch = data.get_batch()
        if param_data is not None:
            param_data, pb = param_data.get_batch(); batch = append_param_batch(batch, pb)
        if obs_data is not None:
            obs_data, ob = obs_data.get_batch(); batch = append_obs_batch(batch, ob)
        return batch, data, param_data, obs_data
    _, data, param_data, obs_data = draw(data, param_data, obs_data)      # solve draws one batch before its loop
    totals, terms_h, tracked_h = [], [], []
    for i in range(n_iter):
        batch, data, param_data, obs_data = draw(data, param_data, obs_data)
        (val, terms), grads = jax.value_and_grad(loss, has_aux=True)(params, batch)
        updates, opt_state = optimizer.update(grads, opt_state, params)
        params = optax.apply_updates(params, updates)
        totals.append(val); terms_h.append(terms); tracked_h.append(params)
    hist = jnp.stack(totals)
    th = {k: jnp.stack([t[k] for t in terms_h]) for k in terms_h[0]}
    if tracked is None:
        tp = jax.tree.map(lambda p: None, params)
    else:
        tp = jax.tree_util.tree_map(lambda tr, *ps: (jnp.stack([jnp.asarray(p) for p in ps]) if tr is not None else None), tracked, *tracked_h, is_leaf=lambda x: x is None)
    return params, hist, th, data, opt_state, tp


def run(cfg, R):
    import jinns
    kind, optn, n, b, n_iter = cfg["kind"], cfg["opt"], cfg["n"], cfg["b"], cfg["n_iter"]
    params, data, loss, param_data, obs_data, tracked = build(cfg)
    lr = jnp.array(0.125); sched = jnp.arange(1, 5) * 0.125
    resume = cfg["resume"]
    n2 = 2 if R.tier == "quick" else 3
    R.note(functions=["jinns.solve (whole call: one jaxpr with a single while)", "jinns.solver._solve._gradient_step", "_store_loss_and_params", "_get_break_fun", "_get_get_batch",
                      "jinns.solver._rar.init_rar/trigger_rar (pass-through)", "jinns.utils._containers"],
           stubs_=["jax.random.split/choice/uniform contracts"])

    def f(lr, sched, params, data, loss, param_data, obs_data):
        opt = make_opt(optn, lr, sched)
        out = jinns.solve(n_iter, params, data, loss, opt, tracked_params=tracked, param_data=param_data, obs_data=obs_data, verbose=(optn != "adam"))
        ref = reference(n_iter, params, data, loss, opt, tracked=tracked, param_data=param_data, obs_data=obs_data)
        if resume:
            out = jinns.solve(n2, out[0], out[3], out[4], opt, opt_state=out[5], tracked_params=tracked, verbose=False)
            ref = reference(n2, ref[0], ref[3], loss, opt, opt_state=ref[4], tracked=tracked)
        return out, ref

    name = f"{kind}/{optn}/n{n}b{b}/it{n_iter}" + ("/aux" if cfg["aux"] else "") + f"/tracked-{cfg['tracked']}" + ("/resumed" if resume else "") + ("/piecewise-net" if cfg.get("relu") else "")
    key = f"{kind}:{optn}"
    NI = n2 if resume else n_iter

    def cmp_tree(label, a, b):
        """leaf-by-leaf equality of two pytrees; python numbers on one side are compared as constants"""
        isl = lambda x: _is_objarr(x) or x is None
        fa, ta = jax.tree_util.tree_flatten(a, is_leaf=isl); fb, tb = jax.tree_util.tree_flatten(b, is_leaf=isl)
        def norm(x):
            if _is_objarr(x): return x
            if isinstance(x, (bool, int, float, np.number)): return tm.conc_array(np.asarray(x))
            return None
        fa = [norm(x) for x in fa]; fb = [norm(x) for x in fb]
        if len(fa) != len(fb) or any((x is None) != (y is None) or (x is not None and x.shape != y.shape) for x, y in zip(fa, fb)):
            return [(label + " (structure)", tm.FALSE)]
        cs = []
        for x, y in zip(fa, fb):
            if x is None: continue
            for p_, q_ in zip(x.flat, y.flat):
                if p_.sort != q_.sort:
                    if p_.sort == "Int": p_ = tm.toreal(p_)
                    if q_.sort == "Int": q_ = tm.toreal(q_)
                cs.append(eq(p_, q_))
        return [(label, tm.conj(cs))]

    def goals(A, O):
        out, ref = O
        G = []
        G += cmp_tree("final parameters == reference loop's", out[0], ref[0])
        G.append(("loss history has n_iter entries", const(tuple(out[1].shape) == (NI,), "Bool")))
        for i in range(NI):
            G.append((f"loss history[{i}] == loss at the parameters before update {i}", eq(out[1][i], ref[1][i])))
        for k in ref[2]:
            G += cmp_tree(f"history of term {k} == reference", out[2][k], ref[2][k])
        G += cmp_tree("advanced data generator == reference loop's generator", out[3], ref[3])
        G += cmp_tree("returned optimizer state == reference loop's live state", out[5], ref[4])
        G += cmp_tree("tracked-parameter histories == value after the update of each iteration", out[6], ref[5])
        G += cmp_tree("returned loss object == the loss passed in", out[4], A[4])
        return G

    tr = R.trace(name, f, (lr, sched, params, data, loss, param_data, obs_data), key=key + ":raises", use_stubs=True, missing="example",
                 conc=lambda nm, l: nm.endswith("indices"), concrete_goals=goals, fallback_key=key)
    if tr is None: return

    def twins(A, O):
        out, ref = O
        tw = []
        if NI > 1:
            tw.append(("loss history[1] == reference history[0]", eq(out[1][1], ref[1][0])))
        tw.append(("final theta == initial theta", eq(out[0].eq_params["theta"][()], A[2].eq_params["theta"][()])))
        return tw

    R.check(name, tr, goals, twin_fn=twins, validate=False, interp_kw=dict(while_bound=NI + 2),
            hint_spec=[(r"^a_0$", ("range", 0.05, 0.3)), (r"^a_1_", ("range", 0.05, 0.3)), (r"^a_2_", ("range", -0.6, 0.6)), (r".", ("range", -1, 1))],
            key_fn=lambda prog, g: key + ":" + g.split("==")[0].split("[")[0].strip()[:40])

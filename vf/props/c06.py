"""C06 -- derivative keys route each term's gradient to exactly the selected parameter groups."""
import itertools
import numpy as np
import jax, jax.numpy as jnp, equinox as eqx
from fractions import Fraction
from .. import terms as tm
from ..terms import const, add, mul, neg, sub, eq, ite
from ..nets import mk_pinn, D
from ..harness import flat_terms

INFO = dict(
    bounds=dict(quick="single losses ODE / stationary / non-stationary with every term active, 2 equation parameters (3 parameter groups), batch size 2, Poly(1)+Ridge(1) network; ALL 2^(terms x groups) mask assignments at once (masks are symbolic Booleans); system loss with 2 unknowns",
                thorough="same with Poly(2)+Ridge(1) networks and batch size 3"),
    outside=["more than 2 equation parameters", "granularity inside nn_params (not supported by jinns)", "floating-point rounding"],
    assumptions=["floats are mathematical reals", "masks are passed as 0-d boolean arrays (so that they are jaxpr inputs); python-bool masks are the concretisations",
                 "JAX's transpose of lax.cond(mask, identity, stop_gradient) is what the jaxpr of jax.grad contains"],
)


def configs(tier):
    deg = 1 if tier == "quick" else 2
    B = 2 if tier == "quick" else 3
    out = [dict(kind=k, deg=deg, B=B) for k in ("ode", "statio", "nonstatio")]
    out += [dict(kind=k, deg=1, B=2, pbatch=True) for k in ("ode", "statio", "nonstatio")]      # the batch carries per-sample values of kappa
    out += [dict(kind=k, deg=1, B=2, inctor=True) for k in ("ode", "statio", "nonstatio")]
    out += [dict(kind=k, part="static") for k in ("ode", "statio", "nonstatio")]
    out.append(dict(kind="system_ode", deg=1, B=2))
    return out


def build(kind, deg, B, masks="array", dk=None, mask_vals=None, pbatch=False):
    """mask_vals: {term: (m_nn, m_theta, m_kappa)} (arrays, possibly tracers) -> the derivative keys are built from them with the
    eq_params dict in the user's (non-alphabetical: theta before kappa) insertion order"""
    import jinns
    from jinns.parameters import Params
    from jinns.parameters._derivative_keys import DerivativeKeysODE, DerivativeKeysPDEStatio, DerivativeKeysPDENonStatio
    from jinns.loss import LossODE, LossPDEStatio, LossPDENonStatio, ODE, PDEStatio, PDENonStatio
    from jinns.data._Batchs import ODEBatch, PDEStatioBatch, PDENonStatioBatch
    ot_theta = lambda i, o, p: o * p.eq_params["theta"]
    eqp = {"theta": jnp.array(0.7), "kappa": jnp.array(1.3)}
    allT = Params(nn_params=True, eq_params={"theta": True, "kappa": True})
    def mk_dk(cls, terms):
        d_ = {}
        for t in terms:
            m = mask_vals[t]
            ep = {}
            ep["theta"] = m[1]; ep["kappa"] = m[2]            # insertion order theta, kappa
            d_[t] = Params(nn_params=m[0], eq_params=ep)
        return cls(**d_)
    if kind == "ode":
        class Eq(ODE):
            def equation(self, t, u, params):
                return jax.grad(lambda t: u(t, params)[0])(t) + params.eq_params["kappa"] * u(t, params)
        u = mk_pinn(1, 1, "ODE", deg=deg, H=1, ot=ot_theta)
        params = Params(nn_params=u.init_params(), eq_params=eqp)
        terms = ("dyn_loss", "initial_condition", "observations")
        dk = dk or (mk_dk(DerivativeKeysODE, terms) if mask_vals is not None else DerivativeKeysODE(**{t: allT for t in terms}))
        loss = LossODE(u=u, dynamic_loss=Eq(Tmax=1), initial_condition=(jnp.array(0.25), jnp.array([0.5])), derivative_keys=dk, params=params)
        obs = {"pinn_in": jnp.arange(1, B + 1).reshape(B, 1) * 0.125, "val": jnp.arange(1, B + 1).reshape(B, 1) * 0.25, "eq_params": {}}
        batch = ODEBatch(temporal_batch=jnp.arange(1, B + 1) * 0.2, obs_batch_dict=obs)
    elif kind == "statio":
        class Eq(PDEStatio):
            def equation(self, x, u, params):
                return params.eq_params["kappa"] * jax.grad(lambda x: u(x, params)[0])(x)[0:1] + u(x, params)
        u = mk_pinn(1, 1, "statio_PDE", deg=deg, H=1, ot=ot_theta)
        params = Params(nn_params=u.init_params(), eq_params=eqp)
        terms = ("dyn_loss", "norm_loss", "boundary_loss", "observations")
        dk = dk or (mk_dk(DerivativeKeysPDEStatio, terms) if mask_vals is not None else DerivativeKeysPDEStatio(**{t: allT for t in terms}))
        loss = LossPDEStatio(u=u, dynamic_loss=Eq(Tmax=1), norm_samples=jnp.array([[0.3], [0.6]]), norm_int_length=jnp.array(1.5),
                             omega_boundary_fun=lambda dx: 0.5, omega_boundary_condition="dirichlet", derivative_keys=dk, params=params)
        obs = {"pinn_in": jnp.arange(1, B + 1).reshape(B, 1) * 0.125, "val": jnp.arange(1, B + 1).reshape(B, 1) * 0.25, "eq_params": {}}
        batch = PDEStatioBatch(inside_batch=jnp.arange(1, B + 1).reshape(B, 1) * 0.2, border_batch=jnp.array([[[0.0, 1.0]]]), obs_batch_dict=obs)
    else:
        class Eq(PDENonStatio):
            def equation(self, t, x, u, params):
                return jax.grad(lambda t: u(t, x, params)[0])(t) + params.eq_params["kappa"] * u(t, x, params)
        u = mk_pinn(2, 1, "nonstatio_PDE", deg=deg, H=1, ot=ot_theta)
        params = Params(nn_params=u.init_params(), eq_params=eqp)
        terms = ("dyn_loss", "norm_loss", "boundary_loss", "observations", "initial_condition")
        dk = dk or (mk_dk(DerivativeKeysPDENonStatio, terms) if mask_vals is not None else DerivativeKeysPDENonStatio(**{t: allT for t in terms}))
        loss = LossPDENonStatio(u=u, dynamic_loss=Eq(Tmax=1), norm_samples=jnp.array([[0.3], [0.6]]), norm_int_length=jnp.array(1.5),
                                omega_boundary_fun=lambda t, dx: 0.5, omega_boundary_condition="dirichlet",
                                initial_condition_fun=lambda x: 0.25 * x[0], derivative_keys=dk, params=params)
        obs = {"pinn_in": jnp.arange(1, 2 * B + 1).reshape(B, 2) * 0.125, "val": jnp.arange(1, B + 1).reshape(B, 1) * 0.25, "eq_params": {}}
        batch = PDENonStatioBatch(times_x_inside_batch=jnp.arange(1, 2 * B + 1).reshape(B, 2) * 0.2,
                                  times_x_border_batch=jnp.array([[[0.3, 0.3], [0.0, 1.0]]]), obs_batch_dict=obs)
    if masks == "array" and mask_vals is None:
        loss = eqx.tree_at(lambda l: l.derivative_keys, loss, jax.tree.map(lambda b: jnp.asarray(b), loss.derivative_keys))
    if pbatch:
        batch = eqx.tree_at(lambda b: b.param_batch_dict, batch, {"kappa": jnp.arange(1, B + 1).reshape(B, 1) * 0.3}, is_leaf=lambda x: x is None)
        if kind == "statio":        # one border row per parameter row
            batch = eqx.tree_at(lambda b: b.border_batch, batch, jnp.tile(batch.border_batch, (B, 1, 1)))
        elif kind == "nonstatio":
            batch = eqx.tree_at(lambda b: b.times_x_border_batch, batch, jnp.tile(batch.times_x_border_batch, (B, 1, 1)))
    return loss, params, batch, terms


def run(cfg, R):
    kind = cfg["kind"]
    if cfg.get("part") == "static": return run_static(cfg, R)
    if kind == "system_ode": return run_system(cfg, R)
    deg, B = cfg["deg"], cfg["B"]
    if cfg.get("inctor"): return run_inctor(cfg, R)
    pbatch = cfg.get("pbatch", False)
    loss, params, batch, terms = build(kind, deg, B, masks="array", pbatch=pbatch)
    loss_true0, _, _, _ = build(kind, deg, B, masks="python", pbatch=pbatch)
    dk_true = loss_true0.derivative_keys          # python-bool all-True masks; every other leaf is shared with `loss`
    groups = ("nn_params", "theta", "kappa")
    R.note(functions=["jax.grad of jinns.loss.%s.evaluate" % {"ode": "LossODE", "statio": "LossPDEStatio", "nonstatio": "LossPDENonStatio"}[kind],
                      "jinns.parameters._derivative_keys._set_derivatives", "DerivativeKeys*.__post_init__"])

    def f(loss, params, batch):
        loss_true = eqx.tree_at(lambda l: l.derivative_keys, loss, dk_true)
        gtot = jax.grad(lambda p: loss.evaluate(p, batch)[0])(params)
        val = loss.evaluate(params, batch)
        val_true = loss_true.evaluate(params, batch)
        gterm_true = {t: jax.grad(lambda p: loss_true.evaluate(p, batch)[1][t])(params) for t in terms}
        gterm_masked = {t: jax.grad(lambda p: loss.evaluate(p, batch)[1][t])(params) for t in terms}
        return gtot, val, val_true, gterm_true, gterm_masked

    name = f"{kind}/deg{deg}/B{B}" + ("/param-batch" if pbatch else "")
    tr = R.trace(name, f, (loss, params, batch), key=f"{kind}:raises")
    if tr is None: return

    def group_leaves(g):
        return {"nn_params": flat_terms(g.nn_params), "theta": flat_terms(g.eq_params["theta"]), "kappa": flat_terms(g.eq_params["kappa"])}

    def mask_of(A, t, grp):
        dk = A[0].derivative_keys
        m = getattr(dk, t)
        return (m.nn_params if grp == "nn_params" else m.eq_params[grp])[()]

    def goals(A, O, wrong=None):
        gtot, val, val_true, gterm_true, gterm_masked = O
        G = []
        gt = group_leaves(gtot); gtt = {t: group_leaves(gterm_true[t]) for t in terms}; gtm = {t: group_leaves(gterm_masked[t]) for t in terms}
        for grp in groups:
            for k in range(len(gt[grp])):
                want = tm.ssum([ite(mask_of(A, t if wrong is None else terms[(terms.index(t) + 1) % len(terms)], grp), gtt[t][grp][k], const(0, "Real")) for t in terms])
                G.append((f"d total/d {grp}[{k}] == sum over terms whose key selects {grp} of d term/d {grp}[{k}]", eq(gt[grp][k], want)))
            for t in terms:
                for k in range(len(gt[grp])):
                    G.append((f"d {t}/d {grp}[{k}] == mask ? unmasked gradient : 0", eq(gtm[t][grp][k], ite(mask_of(A, t, grp), gtt[t][grp][k], const(0, "Real")))))
        if wrong is None:
            G.append(("total value independent of the derivative specification", eq(val[0][()], val_true[0][()])))
            for t in terms:
                G.append((f"value of {t} independent of the derivative specification", eq(val[1][t][()], val_true[1][t][()])))
        return G

    def twins(A, O):
        return [g for g in goals(A, O, wrong=True) if g[0].startswith("d total/d theta")][:1] + \
               [g for g in goals(A, O, wrong=True) if g[0].startswith("d total/d nn_params")][:1]

    R.check(name, tr, goals, twin_fn=twins, key_fn=lambda prog, g: f"{kind}:" + g.split("[")[0][:40])


def run_inctor(cfg, R):
    """the loss (and its derivative keys, eq_params dict in the user's insertion order) is constructed INSIDE the traced function
    from symbolic mask values, and differentiated directly with jax.grad: declaration order of the mask dict is preserved"""
    kind, deg, B = cfg["kind"], cfg["deg"], cfg["B"]
    loss0, params, batch, terms = build(kind, deg, B, masks="python")
    groups = ("nn_params", "theta", "kappa")
    mv0 = {t: tuple(jnp.asarray(True) for _ in range(3)) for t in terms}
    R.note(functions=["jinns.parameters._derivative_keys._set_derivatives (mask and parameter dicts in different key orders)"])

    def f(mv, params, batch):
        loss, _, _, _ = build(kind, deg, B, mask_vals=mv)
        loss_true, _, _, _ = build(kind, deg, B, masks="python")
        gtot = jax.grad(lambda p: loss.evaluate(p, batch)[0])(params)
        gterm_true = {t: jax.grad(lambda p: loss_true.evaluate(p, batch)[1][t])(params) for t in terms}
        return gtot, gterm_true
    name = f"{kind}/constructed-in-trace"
    tr = R.trace(name, f, (mv0, params, batch), key=f"{kind}:inctor:raises")
    if tr is None: return

    def gl(g):
        return {"nn_params": flat_terms(g.nn_params), "theta": flat_terms(g.eq_params["theta"]), "kappa": flat_terms(g.eq_params["kappa"])}

    def goals(A, O, wrong=False):
        mv = A[0]
        gtot, gtt = O
        gt = gl(gtot); gtt = {t: gl(gtt[t]) for t in terms}
        G = []
        for gi, grp in enumerate(groups):
            gj = gi if not wrong else {0: 0, 1: 2, 2: 1}[gi]
            for k in range(len(gt[grp])):
                want = tm.ssum([ite(mv[t][gj][()], gtt[t][grp][k], const(0, "Real")) for t in terms])
                G.append((f"d total/d {grp}[{k}] == sum over terms whose key selects {grp} (mask dict in the user's key order)", eq(gt[grp][k], want)))
        return G

    def twins(A, O):
        return [g for g in goals(A, O, wrong=True) if "d theta" in g[0]][:1]
    R.check(name, tr, goals, twin_fn=twins, key_fn=lambda prog, g: f"{kind}:inctor:" + g.split("[")[0][:40])


def run_static(cfg, R):
    """string form == boolean-tree form; default selects the network parameters only (finite facts on the constructed objects)."""
    from jinns.parameters import Params
    from jinns.parameters._derivative_keys import DerivativeKeysODE, DerivativeKeysPDEStatio, DerivativeKeysPDENonStatio
    kind = cfg["kind"]
    replaying = R.replay is not None
    cls, terms = {"ode": (DerivativeKeysODE, ("dyn_loss", "observations", "initial_condition")),
                  "statio": (DerivativeKeysPDEStatio, ("dyn_loss", "observations", "boundary_loss", "norm_loss")),
                  "nonstatio": (DerivativeKeysPDENonStatio, ("dyn_loss", "observations", "boundary_loss", "norm_loss", "initial_condition"))}[kind]
    params = Params(nn_params=mk_pinn(1, 1, "ODE", deg=1, H=1).init_params(), eq_params={"theta": jnp.array(0.7), "kappa": jnp.array(1.3)})
    def tree(s):
        return Params(nn_params=(s in ("nn_params", "both")), eq_params={k: (s in ("eq_params", "both")) for k in params.eq_params})
    R.note(functions=[f"jinns.parameters._derivative_keys.{cls.__name__}.from_str/__post_init__", "_get_masked_parameters"])
    prog = f"{kind}/from_str"
    n = 0
    for combo in itertools.product(("nn_params", "eq_params", "both"), repeat=len(terms)):
        spec = dict(zip(terms, combo))
        try:
            a = cls.from_str(params, **spec)
            b = cls(**{t: tree(s) for t, s in spec.items()})
            a2 = cls.from_str(params, **{**spec, terms[0]: tree(combo[0])})          # mixed: one term given as a tree, the others as strings
        except Exception as ex:      # a documented way of giving the keys is rejected
            R.records.append(dict(prog=prog, goal=f"from_str({spec}) is accepted", verdict="sat", phase="static", ms=0.0))
            R._record_violation(f"{kind}:from_str-raises", prog, "from_str", {}, note=f"{type(ex).__name__}: {str(ex)[:120]} for {spec}")
            continue
        same = all(jax.tree_util.tree_leaves(getattr(a, t)) == jax.tree_util.tree_leaves(getattr(b, t)) and
                   jax.tree_util.tree_structure(getattr(a, t)) == jax.tree_util.tree_structure(getattr(b, t)) for t in terms)
        R.records.append(dict(prog=prog, goal=f"from_str({spec}) == boolean tree", verdict="structural" if same else "sat", phase="static", ms=0.0))
        if not same:
            R._record_violation(f"{kind}:from_str", prog, "from_str", {}, note=str(spec))
        same2 = all(jax.tree_util.tree_leaves(getattr(a2, t)) == jax.tree_util.tree_leaves(getattr(b, t)) for t in terms)
        if not same2: R._record_violation(f"{kind}:from_str-mixed", prog, "from_str", {}, note=str(spec))
        n += 1
    d = cls(params=params)
    ok = all(getattr(d, t).nn_params is True and all(v is False for v in getattr(d, t).eq_params.values()) for t in terms)
    R.records.append(dict(prog=prog, goal="default selects nn_params only for every term", verdict="structural" if ok else "sat", phase="static", ms=0.0))
    if not ok: R._record_violation(f"{kind}:default", prog, "default", {}, note="default derivative keys are not nn_params-only")
    d2 = cls.from_str(params)
    ok2 = all(getattr(d2, t).nn_params is True and all(v is False for v in getattr(d2, t).eq_params.values()) for t in terms)
    if not ok2: R._record_violation(f"{kind}:default-from_str", prog, "default", {}, note="from_str defaults are not nn_params-only")
    # partial specification: every subset of the terms given a NON-default mask (tree form + params=, and string form), the others left out --
    # each omitted term gets its OWN default (network parameters only), each given term keeps what it was given
    nondefault = Params(nn_params=False, eq_params={"theta": True, "kappa": False})
    is_default = lambda m: m.nn_params is True and all(v is False for v in m.eq_params.values())
    is_given = lambda m: m.nn_params is False and m.eq_params["theta"] is True and m.eq_params["kappa"] is False
    for r in range(1, len(terms)):
        for given in itertools.combinations(terms, r):
            d3 = cls(params=params, **{t: nondefault for t in given})
            ok3 = all((is_given(getattr(d3, t)) if t in given else is_default(getattr(d3, t))) for t in terms)
            R.records.append(dict(prog=prog, goal=f"only {given} specified: omitted terms default to nn_params only", verdict="structural" if ok3 else "sat", phase="static", ms=0.0))
            if not ok3: R._record_violation(f"{kind}:partial-default", prog, "default", {}, note=f"given={given}: " + str({t: (getattr(d3, t).nn_params, dict(getattr(d3, t).eq_params)) for t in terms}))
            d4 = cls.from_str(params, **{t: "eq_params" for t in given})
            ok4 = all(((getattr(d4, t).nn_params is False and all(v is True for v in getattr(d4, t).eq_params.values())) if t in given else is_default(getattr(d4, t))) for t in terms)
            if not ok4: R._record_violation(f"{kind}:partial-default-from_str", prog, "default", {}, note=f"given={given}")
    if replaying:
        R.replay_result = dict(reproduced=bool(R.violations), note="; ".join(v["note"] for v in R.violations[:3]))


def run_system(cfg, R):
    """per-unknown derivative keys of a system loss: the initial-condition gradient of unknown a is routed by a's own key."""
    import jinns
    from jinns.parameters import Params, ParamsDict
    from jinns.parameters._derivative_keys import DerivativeKeysODE
    from jinns.loss import SystemLossODE, ODE
    from jinns.data._Batchs import ODEBatch
    ot_theta = lambda i, o, p: o * p.eq_params["theta"]
    keys = ("a", "b")
    nets = {k: mk_pinn(1, 1, "ODE", deg=1, H=1, ot=ot_theta) for k in keys}
    class Eq(ODE):
        def equation(self, t, u_dict, params_dict):
            pa = params_dict.extract_params("a")
            return jax.grad(lambda t: u_dict["a"](t, pa)[0])(t) + params_dict.eq_params["kappa"] * u_dict["b"](t, params_dict.extract_params("b"))
    params = ParamsDict(nn_params={k: nets[k].init_params() for k in keys}, eq_params={"theta": jnp.array(0.7), "kappa": jnp.array(1.3)})
    def dkey(ic_nn, ic_theta):
        T = Params(nn_params=True, eq_params={"theta": True, "kappa": True})
        return DerivativeKeysODE(dyn_loss=T, observations=T, initial_condition=Params(nn_params=ic_nn, eq_params={"theta": ic_theta, "kappa": True}))
    name = "system_ode/2 unknowns"
    R.note(functions=["jinns.loss.SystemLossODE.__post_init__/evaluate", "constraints_system_loss_apply"])
    # four concrete assignments of the two unknowns' initial-condition keys (python bools: the constructor copies them)
    for (a_nn, a_th, b_nn, b_th) in ((True, False, False, True), (False, True, True, False), (True, True, False, False), (False, False, True, True)):
        dk = {"a": dkey(a_nn, a_th), "b": dkey(b_nn, b_th)}
        try:
            loss = SystemLossODE(u_dict=nets, dynamic_loss_dict={"a": Eq(Tmax=1), "b": Eq(Tmax=1)}, derivative_keys_dict=dk,
                                 initial_condition_dict={"a": (jnp.array(0.25), jnp.array([0.5])), "b": (jnp.array(0.25), jnp.array([1.5]))},
                                 loss_weights=jinns.loss.LossWeightsODEDict(dyn_loss=1.0, initial_condition=1.0, observations=1.0),
                                 params_dict=params)
        except Exception as ex:
            R.errors.append(f"{name}: constructor raised {type(ex).__name__}: {ex}"); return
        batch = ODEBatch(temporal_batch=jnp.array([0.2, 0.4]))
        def f(loss, params, batch):
            g = jax.grad(lambda p: loss.evaluate(p, batch)[1]["initial_condition"])(params)
            return g
        prog = f"{name}/ic-keys a=({a_nn},{a_th}) b=({b_nn},{b_th})"
        tr = R.trace(prog, f, (loss, params, batch), key="system_ode:raises")
        if tr is None: return
        def goals(A, O, a_nn=a_nn, a_th=a_th, b_nn=b_nn, b_th=b_th):
            G = []
            za = flat_terms(O.nn_params["a"]); zb = flat_terms(O.nn_params["b"])
            if not a_nn: G.append(("IC gradient w.r.t. network a is zero when a's key excludes nn_params", tm.conj([eq(t, const(0, "Real")) for t in za])))
            if not b_nn: G.append(("IC gradient w.r.t. network b is zero when b's key excludes nn_params", tm.conj([eq(t, const(0, "Real")) for t in zb])))
            if not a_th and not b_th: G.append(("IC gradient w.r.t. theta is zero when no key selects it", eq(O.eq_params["theta"][()], const(0, "Real"))))
            # exact routing of the shared equation parameter: the sum, over the unknowns whose OWN key selects theta, of that unknown's contribution
            sysA, pA = A[0], A[1]
            th = pA.eq_params["theta"][()]
            want = const(0, "Real")
            for k, sel in (("a", a_th), ("b", b_th)):
                if not sel: continue
                t0, u0 = sysA.u_constraints_dict[k].initial_condition
                Dk = D(pA.nn_params[k], [t0[()]])
                want = add(want, mul(const(2, "Real"), mul(sub(mul(Dk, th), u0[0]), Dk)))
            G.append(("IC gradient w.r.t. theta == sum of the contributions of the unknowns whose own key selects it", eq(O.eq_params["theta"][()], want)))
            return G
        def twins(A, O, a_nn=a_nn, b_nn=b_nn):
            tw = []
            if a_nn: tw.append(("IC gradient w.r.t. network a is zero although selected", tm.conj([eq(t, const(0, "Real")) for t in flat_terms(O.nn_params["a"])])))
            if b_nn: tw.append(("IC gradient w.r.t. network b is zero although selected", tm.conj([eq(t, const(0, "Real")) for t in flat_terms(O.nn_params["b"])])))
            return tw
        R.check(prog, tr, goals, twin_fn=twins, key_fn=lambda p, g: "system_ode:" + g[:40])

"""C08 -- collocation points lie in the declared domain, with declared counts and shapes."""
import numpy as np
import jax, jax.numpy as jnp, equinox as eqx
from .. import terms as tm
from ..terms import const, eq, lt, le, bnot, band, bor, implies
from ..genutil import Codes

INFO = dict(
    bounds=dict(quick="uniform sampling: symbolic key and symbolic domain bounds, n <= 4 points, d in {1,2}, 3 get_batch calls (across a reshuffle); the same with grid sampling (n = 3, 4; symbolic bounds) and with RAR-allocated stores (n = 4, 2 active); grid sampling: count decided in QF_FP(binary64) for n < 4096 on 2 concrete domains per generator",
                thorough="uniform: n <= 8, 4 get_batch calls; grid count: 4 concrete domains per generator (incl. negative and non-unit boxes)"),
    outside=["the threefry bit stream (jax.random.uniform is replaced by minval + (maxval-minval)*U with 0 <= U < 1)",
             "grid sampling in dimension 2 with n not a perfect square (the constructor raises: it cannot store n points on a regular grid)",
             "float32/float64 rounding of the uniform samples (claims over the reals); the grid COUNT is the exception and is decided bit-precisely"],
    assumptions=["jax.random.uniform(key, shape, minval, maxval) = minval + (maxval - minval) * U, 0 <= U < 1",
                 "domain bounds satisfy min <= max", "numpy's arange length rule ceil((stop-start)/step) evaluated in binary64"],
)


def configs(tier):
    out = []
    N = 4 if tier == "quick" else 8
    for kind in ("ode", "statio1", "statio2", "nonstatio1", "nonstatio2", "nonstatio1_nocart", "param"):
        for (n, b) in ((N, 2), (3, 3), (3, 2)) if tier == "quick" else ((N, 2), (N, 3), (3, 3), (5, 2), (3, 2)):
            out.append(dict(kind=kind, n=n, b=b, part="uniform", x64=False))
    # grid sampling with symbolic (hence also non-square, negative, non-unit) domain bounds: stored values, shapes and batches
    for kind, n, b in (("ode", 4, 2), ("statio1", 3, 2), ("statio2", 4, 2), ("nonstatio2", 4, 2), ("param", 3, 2)):
        out.append(dict(kind=kind, n=n, b=b, part="uniform", method="grid", x64=False))
    # generators built for residual-adaptive refinement (pre-allocated, partly inactive stores): every stored row is a point of the domain,
    # and a batch that runs past the active part still holds points of the domain
    for kind in ("ode", "statio1", "nonstatio1"):
        out.append(dict(kind=kind, n=4, b=3, part="uniform", rar=True, x64=False))
    doms = [(0.0, 1.0), (-2.0, 0.5)] if tier == "quick" else [(0.0, 1.0), (-2.0, 0.5), (0.1, 0.3), (-7.0, -3.0)]
    for gen in ("ode", "statio1", "nonstatio_t", "param", "statio2"):
        for lo, hi in doms:
            out.append(dict(kind=gen, part="grid", lo=lo, hi=hi, x64=True))
    out.append(dict(kind="grid_domain", part="grid_values", x64=True))
    return out


# ------------------------------------------------------------------------------------------ uniform part
def build_uniform(kind, n, b, method="uniform", rar=False):
    from jinns.data._DataGenerators import DataGeneratorODE, CubicMeshPDEStatio, CubicMeshPDENonStatio, DataGeneratorParameter
    d = 2 if kind.endswith("2") else 1
    rp = {"start_iter": 0, "update_every": 1, "sample_size_times": 2, "selected_sample_size_times": 1,
          "sample_size_omega": 2, "selected_sample_size_omega": 1, "sample_size": 2, "selected_sample_size": 1} if rar else None
    rk_t = dict(rar_parameters=rp, nt_start=2) if rar else {}
    rk_x = dict(rar_parameters=rp, n_start=2) if rar else {}
    if kind == "ode":
        return (lambda key, lo, hi: DataGeneratorODE(key, n, lo[0], hi[0], b, method=method, **rk_t)), 1, dict(store=lambda g: g.times)
    if kind in ("statio1", "statio2"):
        nb = None if d == 1 else 4 * n
        return (lambda key, lo, hi: CubicMeshPDEStatio(key=key, n=n, nb=(2 if d == 1 else nb), omega_batch_size=b, omega_border_batch_size=(2 if d == 1 else b),
                                                        dim=d, min_pts=tuple(lo), max_pts=tuple(hi), method=method, **rk_x)), d, {}
    if kind.startswith("nonstatio"):
        cart = not kind.endswith("nocart")
        return (lambda key, lo, hi: CubicMeshPDENonStatio(key=key, n=n, nb=(2 if d == 1 else 4 * n), nt=n + 1, omega_batch_size=b,
                                                           omega_border_batch_size=(2 if d == 1 else b), temporal_batch_size=b, dim=d,
                                                           min_pts=tuple(lo[1:]), max_pts=tuple(hi[1:]), tmin=lo[0], tmax=hi[0],
                                                           method=method, cartesian_product=cart, **rk_x, **(dict(nt_start=2) if rar else {}))), d + 1, {}
    if kind == "param":
        return None, 2, {}
    raise ValueError(kind)


def run(cfg, R):
    if cfg["part"] == "grid": return run_grid(cfg, R)
    if cfg["part"] == "grid_values": return run_grid_values(cfg, R)
    kind, n, b = cfg["kind"], cfg["n"], cfg["b"]
    method = cfg.get("method", "uniform"); rar = cfg.get("rar", False)
    ncalls = 4 if R.tier == "quick" else 5
    R.note(stubs_=["jax.random.split -> fresh opaque keys", "jax.random.uniform -> minval+(maxval-minval)*U, 0<=U<1",
                   "jax.random.choice(replace=False) -> a[pi], pi arbitrary permutation"])
    key = jax.random.PRNGKey(5)
    if kind == "param":
        from jinns.data._DataGenerators import DataGeneratorParameter
        nd = 2
        lo = jnp.array([0.0, 2.0]); hi = jnp.array([1.0, 3.5])
        def f(key, lo, hi):
            g = DataGeneratorParameter(key, n, b, param_ranges={"nu": (lo[0], hi[0]), "mu": (lo[1], hi[1])}, method=method)
            g0 = g; outs = []
            for _ in range(ncalls):
                g, bt = g.get_batch(); outs.append(bt)
            return g0, outs
        R.note(functions=["jinns.data.DataGeneratorParameter.__post_init__/generate_data/param_batch"])
    else:
        ctor, nd, _ = build_uniform(kind, n, b, method, rar)
        lo = jnp.arange(nd) * 0.5 - 1.0; hi = jnp.arange(nd) * 0.25 + 1.0
        def f(key, lo, hi):
            g = ctor(key, lo, hi)
            g0 = g; outs = []
            for _ in range(ncalls):
                g, bt = g.get_batch(); outs.append(bt)
            return g0, outs
        R.note(functions=[{"ode": "jinns.data.DataGeneratorODE", "statio1": "jinns.data.CubicMeshPDEStatio", "statio2": "jinns.data.CubicMeshPDEStatio"}.get(kind, "jinns.data.CubicMeshPDENonStatio")
                          + ".__post_init__/generate_*_data/sample_in_*/get_batch", "jinns.data._DataGenerators.make_cartesian_product"])
    name = f"{kind}/n{n}/b{b}/{method}" + ("/rar-store" if rar else "")
    tr = R.trace(name, f, (key, lo, hi), key=f"{kind}:{method}:raises", use_stubs=True)
    if tr is None: return
    d = 2 if kind.endswith("2") else 1
    cart = not kind.endswith("nocart")

    def shape_goal(label, arr, shape):
        return (f"{label} has shape {tuple(shape)}", const(tuple(np.shape(arr)) == tuple(shape), "Bool"))

    def in_box(label, elems, lo_t, hi_t):
        return (label, tm.conj([band(le(lo_t, e), le(e, hi_t)) for e in elems]))

    def assume(A, O):
        key_, lo_, hi_ = A
        return [le(lo_[j], hi_[j]) for j in range(len(lo_))]

    def goals(A, O):
        key_, lo_, hi_ = A
        g0, outs = O
        G = []
        if kind == "param":
            for j, k in enumerate(("nu", "mu")):
                st = g0.param_n_samples[k]
                G.append(shape_goal(f"stored samples[{k}]", st, (n, 1)))
                G.append(in_box(f"stored samples[{k}] in the key's own range", list(st.flat), lo_[j], hi_[j]))
                cd = Codes(st)
                for c, bt in enumerate(outs):
                    G.append(shape_goal(f"batch {c} [{k}]", bt[k], (b, 1)))
                    G.append((f"batch {c} [{k}] holds stored samples of this key", tm.conj([bnot(eq(cd.row_of(e), const(-1, "Int"))) for e in bt[k].flat])))
            return G
        if kind == "ode":
            st = g0.times
            G.append(shape_goal("stored times", st, (n,)))
            G.append(in_box("stored times in [tmin, tmax]", list(st.flat), lo_[0], hi_[0]))
            cd = Codes(st)
            for c, bt in enumerate(outs):
                G.append(shape_goal(f"batch {c}", bt.temporal_batch, (b,)))
                G.append((f"batch {c} holds stored times", tm.conj([bnot(eq(cd.row_of(e), const(-1, "Int"))) for e in bt.temporal_batch.flat])))
            return G
        # PDE generators
        off = 1 if kind.startswith("nonstatio") else 0
        st = g0.omega
        G.append(shape_goal("stored omega", st, (n, d)))
        for j in range(d):
            G.append(in_box(f"stored omega[:, {j}] in [min_{j}, max_{j}]", list(st[:, j]), lo_[off + j], hi_[off + j]))
        cdo = Codes(st)
        sb = g0.omega_border
        border_goal.store = sb; border_goal.codes = {}
        if d == 1:
            G.append(shape_goal("stored border", sb, (2,)))
            G.append(("1-D border is the pair (xmin, xmax)", band(eq(sb[0], lo_[off]), eq(sb[1], hi_[off]))))
        else:
            G.append(shape_goal("stored border", sb, (n, 2, 4)))
            pins = {0: (0, lo_[off + 0]), 1: (0, hi_[off + 0]), 2: (1, lo_[off + 1]), 3: (1, hi_[off + 1])}
            for fct, (ax, val) in pins.items():
                G.append((f"border facet {fct}: coordinate {ax} pinned to the facet value", tm.conj([eq(sb[i, ax, fct], val) for i in range(n)])))
                G.append(in_box(f"border facet {fct}: free coordinate in range", [sb[i, 1 - ax, fct] for i in range(n)], lo_[off + 1 - ax], hi_[off + 1 - ax]))
        if off:
            tt = g0.times
            G.append(shape_goal("stored times", tt, (n + 1,)))
            G.append(in_box("stored times in [tmin, tmax]", list(tt.flat), lo_[0], hi_[0]))
        # batches: every element is an element of the stored column it must come from (propositional position codes); together
        # with the in-box goals of the stores above this gives "contains only points of the domain" without nonlinear ite terms
        cds_o = [Codes(np.asarray(st, dtype=object)[:, j:j + 1]) for j in range(d)]
        cd_t = Codes(np.asarray(g0.times, dtype=object).reshape(-1, 1)) if off else None
        def member(cd, elems):
            return tm.conj([bnot(eq(cd.row_of(e), const(-1, "Int"))) for e in elems])
        for c, bt in enumerate(outs):
            if not off:
                G.append(shape_goal(f"batch {c} inside", bt.inside_batch, (b, d)))
                ins = bt.inside_batch; brd = bt.border_batch
                nbb = (1 if d == 1 else b)
                G.append(shape_goal(f"batch {c} border", brd, (nbb, d, 2 * d)))
                for j in range(d):
                    G.append((f"batch {c} inside[:, {j}] holds stored interior coordinates {j} (hence in the box)", member(cds_o[j], list(ins[:, j]))))
                G.append(border_goal(c, brd, lo_, hi_, 0, d))
            else:
                rows = b * b if cart else b
                txi = bt.times_x_inside_batch; txb = bt.times_x_border_batch
                G.append(shape_goal(f"batch {c} times_x_inside", txi, (rows, 1 + d)))
                nbb = (1 if d == 1 else b)
                rows_b = b * nbb if (cart or d == 1) else b
                G.append(shape_goal(f"batch {c} times_x_border", txb, (rows_b, 1 + d, 2 * d)))
                G.append((f"batch {c} time column holds stored times (hence in [tmin, tmax])", member(cd_t, list(txi[:, 0]))))
                for j in range(d):
                    G.append((f"batch {c} inside[:, {1 + j}] holds stored interior coordinates {j} (hence in the box)", member(cds_o[j], list(txi[:, 1 + j]))))
                G.append((f"batch {c} border time rows hold stored times", member(cd_t, list(txb[:, 0, :].flat))))
                G.append(border_goal(c, txb[:, 1:, :], lo_, hi_, 1, d))
        return G

    def border_goal(c, brd, lo_, hi_, off, d):
        cs = []
        sbA = np.asarray(border_goal.store, dtype=object) if d == 2 else None
        if d == 1:
            for i in range(brd.shape[0]):
                cs.append(eq(brd[i, 0, 0], lo_[off])); cs.append(eq(brd[i, 0, 1], hi_[off]))
        else:
            pins = {0: (0, lo_[off + 0]), 1: (0, hi_[off + 0]), 2: (1, lo_[off + 1]), 3: (1, hi_[off + 1])}
            for fct, (ax, val) in pins.items():
                for i in range(brd.shape[0]):
                    cs.append(eq(brd[i, ax, fct], val))
                    e = brd[i, 1 - ax, fct]
                    cdf = border_goal.codes.setdefault(fct, Codes(sbA[:, 1 - ax, fct].reshape(-1, 1)))
                    cs.append(bnot(eq(cdf.row_of(e), const(-1, "Int"))))        # a stored free coordinate of this facet (in range by the store goal)
        return (f"batch {c} border points lie on their facet (xmin,xmax,ymin,ymax) and vary only along it", tm.conj(cs))

    def twins(A, O):
        key_, lo_, hi_ = A
        g0, outs = O
        if kind == "param":
            st = g0.param_n_samples["nu"]
            return [("stored samples[nu] strictly below the midpoint of nu's range", tm.conj([lt(tm.mul(const(2, "Real"), e), tm.add(lo_[0], hi_[0])) for e in st.flat]))]
        if kind == "ode":
            st = g0.times
            return [("stored times strictly below the midpoint", tm.conj([lt(tm.mul(const(2, "Real"), e), tm.add(lo_[0], hi_[0])) for e in st.flat]))]
        off = 1 if kind.startswith("nonstatio") else 0
        st = g0.omega
        tw = [("stored omega[:,0] strictly below the midpoint", tm.conj([lt(tm.mul(const(2, "Real"), e), tm.add(lo_[off], hi_[off])) for e in st[:, 0]]))]
        if d == 2:
            sb = g0.omega_border
            tw.append(("border facet 2 has coordinate 0 pinned (i.e. facets ordered xmin,ymin,xmax,ymax)", tm.conj([eq(sb[i, 0, 2], hi_[off]) for i in range(n)])))
        return tw

    R.check(name, tr, goals, twin_fn=twins, extra_assume_fn=assume, validate=False,
            # domains around 0, entirely positive and entirely negative, in turn (round r of the hinted refutation)
            hint_spec=[(r"a_1_", ("alt", [("range", -3, -1), ("range", 1, 2), ("range", -7, -5)])), (r"a_2_", ("alt", [("range", 1, 3), ("range", 2.5, 4), ("range", -4, -2)]))],
            key_fn=lambda prog, gname: f"{kind}:{method}{':rar-store' if rar else ''}:{gname.split('[')[0][:40]}")


# ------------------------------------------------------------------------------------------ grid count (QF_FP)
class FP:
    """float proxy: records binary64 operations as z3 FP terms (RNE)."""
    def __init__(self, t): self.t = t
    @staticmethod
    def lift(x):
        import z3
        if isinstance(x, FP): return x.t
        if isinstance(x, IntP): return z3.fpSignedToFP(z3.RNE(), x.bv, z3.Float64())
        return z3.FPVal(float(x), z3.Float64())
    def _bin(self, o, f, rev=False):
        import z3
        a, b = self.t, FP.lift(o)
        if rev: a, b = b, a
        return FP(f(z3.RNE(), a, b))
    def __sub__(self, o):
        import z3; return self._bin(o, z3.fpSub)
    def __rsub__(self, o):
        import z3; return self._bin(o, z3.fpSub, True)
    def __add__(self, o):
        import z3; return self._bin(o, z3.fpAdd)
    __radd__ = __add__
    def __mul__(self, o):
        import z3; return self._bin(o, z3.fpMul)
    __rmul__ = __mul__
    def __truediv__(self, o):
        import z3; return self._bin(o, z3.fpDiv)
    def __rtruediv__(self, o):
        import z3; return self._bin(o, z3.fpDiv, True)


class IntP:
    """symbolic point count: a 16-bit vector constrained to 1 <= n < 4096."""
    def __init__(self, bv): self.bv = bv
    def __index__(self): raise TypeError("symbolic count used as an index")
    def __lt__(self, o):
        if isinstance(o, int) and o <= 1: return False        # 1 <= n
        raise TypeError("symbolic count compared with %r" % (o,))
    def __ge__(self, o): return not self.__lt__(o)


class NotRecognised(Exception):
    pass


def run_grid(cfg, R):
    """the scalar prologue of the REAL constructor is executed with float proxies; jnp.arange is patched to
    record its arguments.  Recognised forms: arange(start, stop, step) -> length ceil((stop-start)/step) (numpy's
    rule, binary64); arange(n) with n the requested count -> exactly n."""
    import z3, time
    import jinns.data._DataGenerators as DG
    kind, lo, hi = cfg["kind"], cfg["lo"], cfg["hi"]
    nbv = z3.BitVec("n", 16)
    n = IntP(nbv)
    calls = []
    real_arange = jnp.arange

    class Stop(Exception):
        pass

    def fake_arange(*a, **k):
        if not any(isinstance(x, (FP, IntP)) for x in a):
            return real_arange(*a, **k)          # an arange that does not involve the symbolic quantities
        calls.append(a)
        raise Stop()

    key = jax.random.PRNGKey(0)
    F = lambda v: FP(z3.FPVal(v, z3.Float64()))
    prog = f"grid-count/{kind}/[{lo},{hi}]"
    R.note(functions=["jinns.data.%s (method='grid'): scalar prologue up to jnp.arange" %
                      {"ode": "DataGeneratorODE.generate_time_data", "statio1": "CubicMeshPDEStatio.generate_data[dim=1]", "statio2": "CubicMeshPDEStatio.generate_data[dim=2]",
                       "nonstatio_t": "CubicMeshPDENonStatio.generate_time_data", "param": "DataGeneratorParameter.generate_data"}[kind]])

    def construct(nval, lo_, hi_):
        if kind == "ode":
            return DG.DataGeneratorODE(key, nval, lo_, hi_, 1, method="grid")
        if kind == "statio1":
            return DG.CubicMeshPDEStatio(key=key, n=nval, nb=None, omega_batch_size=1, omega_border_batch_size=None, dim=1,
                                         min_pts=(lo_,), max_pts=(hi_,), method="grid")
        if kind == "statio2":
            return DG.CubicMeshPDEStatio(key=key, n=nval, nb=None, omega_batch_size=1, omega_border_batch_size=None, dim=2,
                                         min_pts=(lo_, lo_), max_pts=(hi_, hi_), method="grid")
        if kind == "nonstatio_t":
            return DG.CubicMeshPDENonStatio(key=key, n=4, nb=None, nt=nval, omega_batch_size=1, omega_border_batch_size=None,
                                            temporal_batch_size=1, dim=1, min_pts=(0.0,), max_pts=(1.0,), tmin=lo_, tmax=hi_, method="uniform") \
                if False else _nonstatio_grid_time(DG, key, nval, lo_, hi_)
        if kind == "param":
            return DG.DataGeneratorParameter(key, nval, 1, param_ranges={"nu": (lo_, hi_)}, method="grid")

    def count_of(g):
        if kind == "ode": return g.times.shape[0]
        if kind in ("statio1", "statio2"): return g.omega.shape[0]
        if kind == "nonstatio_t": return g.times.shape[0]
        if kind == "param": return g.param_n_samples["nu"].shape[0]

    if kind == "statio2":
        # sqrt(n) and a reshape: prologue not of a recognised scalar form -> concrete enumeration of perfect squares is NOT
        # solver-based; report this sub-claim as not covered rather than passing it.
        R.records.append(dict(prog=prog, goal="2-D grid count", verdict="not-covered", phase="-", ms=0.0))
        R.note(assumptions=["sub-claim NOT covered: point count of 2-D grid sampling (prologue goes through jnp.sqrt(n) and reshape)"])
        return
    if R.replay is not None:
        if R.replay.get("prog") != prog: return
        nv = int(R.replay["model"]["n"])
        g = construct(nv, lo, hi)
        R.replay_result = dict(reproduced=(count_of(g) != nv), note=f"n={nv} stored {count_of(g)}")
        return
    jnp.arange = fake_arange
    try:
        try:
            construct(n, F(lo), F(hi))
        except Stop:
            pass
        except Exception as ex:
            jnp.arange = real_arange
            R.inconclusive.append(f"{prog}: prologue not executable with float proxies ({type(ex).__name__}: {ex})")
            return
    finally:
        jnp.arange = real_arange
    if not calls:
        R.inconclusive.append(f"{prog}: jnp.arange was not reached"); return
    a = calls[0]
    s = z3.Solver(); s.set("timeout", 120000 if R.tier == "quick" else 600000)
    s.add(z3.UGT(nbv, 0), z3.ULT(nbv, 4096))
    nf = z3.fpSignedToFP(z3.RNE(), nbv, z3.Float64())
    t0 = time.time()
    if len(a) == 1 and isinstance(a[0], IntP) and a[0] is n:
        R.records.append(dict(prog=prog, goal="grid stores exactly n points (arange(n))", verdict="structural", phase="-", ms=0.0))
        return
    if len(a) == 3 and all(isinstance(x, (FP, float, int)) for x in a):
        start, stop, step = (FP.lift(x) for x in a)
        q = z3.fpDiv(z3.RNE(), z3.fpSub(z3.RNE(), stop, start), step)
        # numpy: len = ceil(q); violation iff ceil(q) != n  <=>  q > n  or  q <= n-1
        s.add(z3.Or(z3.fpGT(q, nf), z3.fpLEQ(q, z3.fpSub(z3.RNE(), nf, z3.FPVal(1.0, z3.Float64())))))
        r = str(s.check()); ms = 1000 * (time.time() - t0); R.solver_time += ms / 1000
        if r == "unsat":
            R.records.append(dict(prog=prog, goal="grid stores exactly n points for every 1 <= n < 4096", verdict="unsat", phase="QF_FP", ms=round(ms, 1)))
        elif r == "sat":
            nv = s.model()[nbv].as_long()
            R.records.append(dict(prog=prog, goal="grid stores exactly n points for every 1 <= n < 4096", verdict="sat", phase="QF_FP", ms=round(ms, 1)))
            g = construct(nv, lo, hi)
            if count_of(g) != nv:
                R._record_violation(f"{kind}:grid-count", prog, "grid count", {"n": nv}, note=f"n={nv} on [{lo},{hi}] stores {count_of(g)} points")
            else:
                R.errors.append(f"{prog}: FP witness n={nv} does not reproduce (arange length model wrong)")
        else:
            R.inconclusive.append(f"{prog}: QF_FP query unknown after {ms/1000:.0f}s")
        return
    R.inconclusive.append(f"{prog}: arange called in an unrecognised form {tuple(type(x).__name__ for x in a)}")


def _nonstatio_grid_time(DG, key, nval, lo_, hi_):
    return DG.CubicMeshPDENonStatio(key=key, n=4, nb=None, nt=nval, omega_batch_size=1, omega_border_batch_size=None,
                                    temporal_batch_size=1, dim=1, min_pts=(0.0,), max_pts=(1.0,), tmin=lo_, tmax=hi_, method="grid")


def run_grid_values(cfg, R):
    """grid points lie in the domain: concrete constructors on small n, all domains of the tier (a finite check of
    static facts; the symbolic version needs a traceable constructor)."""
    import jinns.data._DataGenerators as DG
    key = jax.random.PRNGKey(0)
    prog = "grid-values"
    if R.replay is not None: return
    doms = [(0.0, 1.0), (-2.0, 0.5), (0.1, 0.3), (-7.0, -3.0)]
    for lo, hi in doms:
        for n in (1, 2, 3, 4, 9, 16):
            g = DG.DataGeneratorODE(key, n, lo, hi, 1, method="grid")
            ok = bool(jnp.all((g.times >= lo) & (g.times <= hi)))
            R.records.append(dict(prog=prog, goal=f"ODE grid n={n} [{lo},{hi}] in domain", verdict="structural" if ok else "sat", phase="concrete", ms=0.0))
            if not ok: R._record_violation("ode:grid-values", prog, "grid values", {"n": n}, note=f"n={n} [{lo},{hi}]")
            if n in (4, 9, 16):
                g2 = DG.CubicMeshPDEStatio(key=key, n=n, nb=None, omega_batch_size=1, omega_border_batch_size=None, dim=2,
                                           min_pts=(lo, lo), max_pts=(hi, hi), method="grid")
                ok = bool(jnp.all((g2.omega >= lo) & (g2.omega <= hi))) and g2.omega.shape == (n, 2)
                R.records.append(dict(prog=prog, goal=f"2-D grid n={n} [{lo},{hi}] shape and domain", verdict="structural" if ok else "sat", phase="concrete", ms=0.0))
                if not ok: R._record_violation("statio2:grid-values", prog, "grid values", {"n": n}, note=f"n={n} [{lo},{hi}] shape {g2.omega.shape}")

"""C13 -- a system loss is the weighted composition of its equations and unknowns."""
import numpy as np
import jax, jax.numpy as jnp, equinox as eqx
from fractions import Fraction
from .. import terms as tm
from ..terms import const, add, mul, neg, sub, eq, uf
from ..nets import mk_pinn, D, unit, sq, mean
from ..stubs import psi

INFO = dict(
    bounds=dict(quick="ODE / stationary / non-stationary systems with (equations, unknowns) in {(1,1),(2,2),(1,2),(2,1)}, batch size 2, weight specifications scalar / per-key dict / missing, initial-condition, boundary and observation specifications per unknown (some absent)",
                thorough="same with batch size 3 and d=2 for the stationary system"),
    outside=["more than 2 equations / unknowns", "SPINN systems", "floating-point rounding"],
    fresh_process=True,       # every configuration in its own process: state kept by one system loss must not leak into the next configuration's run
    assumptions=["floats are mathematical reals", "user equations are psi_e(asymmetric linear form of t, x, u_a, u_b, kappa) so that a swapped (t, x) call is visible",
                 "the single-network terms the system is compared with are the real Loss* classes (their own correctness is C03-C05)"],
)

KINDS = ("ode", "statio", "nonstatio")


def configs(tier):
    out = []
    B = 2 if tier == "quick" else 3
    for kind in KINDS:
        for (ne, nu) in ((1, 1), (2, 2), (1, 2), (2, 1)):
            for wspec in ("scalar", "dict", "missing"):
                if (ne, nu) == (1, 1) and wspec == "missing": continue
                out.append(dict(kind=kind, ne=ne, nu=nu, w=wspec, B=B, d=1))
        out.append(dict(kind=kind, ne=1, nu=1, w="scalar", B=B, d=1, plain=True))
        if kind != "ode":      # two spatial coordinates: the equations get (t, x) / x with x the WHOLE spatial point
            out.append(dict(kind=kind, ne=2, nu=2, w="scalar", B=B, d=2))
            out.append(dict(kind=kind, ne=1, nu=1, w="scalar", B=B, d=2, plain=True))
        # a second system of the same shape but with OTHER weights is evaluated first, in the same process: each system is composed with its own weights
        out.append(dict(kind=kind, ne=2, nu=2, w="dict", B=B, d=1, seq=True))
        # the user's equations return their single residual component as a bare scalar
        out.append(dict(kind=kind, ne=2, nu=2, w="scalar", B=B, d=1, scalar_res=True))
        out.append(dict(kind=kind, ne=1, nu=1, w="scalar", B=B, d=1, plain=True, scalar_res=True))
        # the system is CONSTRUCTED inside the traced function (declaration order of the user's dicts is preserved: keys in
        # non-alphabetical order), per-key weight dicts with distinct symbolic values, per-unknown observation slices
        out.append(dict(kind=kind, inctor=True, B=B))
        out.append(dict(kind=kind, inctor=True, B=B, shape1=True))
    return out


def run_inctor(cfg, R):
    import jinns
    from jinns.parameters import Params, ParamsDict
    from jinns.loss import (LossODE, LossPDEStatio, LossPDENonStatio, SystemLossODE, SystemLossPDE, ODE, PDEStatio, PDENonStatio,
                            LossWeightsODEDict, LossWeightsPDEDict)
    from jinns.data._Batchs import ODEBatch, PDEStatioBatch, PDENonStatioBatch
    kind, B = cfg["kind"], cfg["B"]
    ukeys = ["prey", "fox"]; ekeys = ["zz", "aa", "mm"]            # declaration orders that are not alphabetical
    d_in = {"ode": 1, "statio": 1, "nonstatio": 2}[kind]
    eq_type = {"ode": "ODE", "statio": "statio_PDE", "nonstatio": "nonstatio_PDE"}[kind]
    nets = {}
    for k in ukeys: nets[k] = mk_pinn(d_in, 2, eq_type, deg=1, H=1)
    params = ParamsDict(nn_params={k: nets[k].init_params() for k in ukeys}, eq_params={"kappa": jnp.array(1.3)})
    def body(e, t, x, ud, pd):
        ev = lambda k: (ud[k](t, pd.extract_params(k)) if kind == "ode" else ud[k](x, pd.extract_params(k)) if kind == "statio" else ud[k](t, x, pd.extract_params(k)))
        s = (1.0 + e) * ev("prey")[0] + pd.eq_params["kappa"] * ev("fox")[1]
        if t is not None: s = s + 2.0 * jnp.ravel(t)[0]
        if x is not None: s = s + 3.0 * x[0]
        return jnp.array([psi(e)(s)])
    if kind == "ode":
        class Eq(ODE):
            idx: int = eqx.field(static=True, default=0)
            def equation(self, t, ud, pd): return body(self.idx, t, None, ud, pd)
    elif kind == "statio":
        class Eq(PDEStatio):
            idx: int = eqx.field(static=True, default=0)
            def equation(self, x, ud, pd): return body(self.idx, None, x, ud, pd)
    else:
        class Eq(PDENonStatio):
            idx: int = eqx.field(static=True, default=0)
            def equation(self, t, x, ud, pd): return body(self.idx, t, x, ud, pd)
    term_names = ("dyn_loss", "initial_condition", "observations") if kind == "ode" else ("dyn_loss", "norm_loss", "boundary_loss", "observations", "initial_condition")
    shape1 = cfg.get("shape1", False)
    # dyn weights optionally of shape (1,) (accepted by set_loss_weights); one unknown's weight of one constraint term is exactly 0
    wvals = {t: ({k: (jnp.array([0.5 + 0.25 * i + 0.125 * j]) if shape1 else jnp.array(0.5 + 0.25 * i + 0.125 * j)) for j, k in enumerate(ekeys)} if t == "dyn_loss" else
                 {k: jnp.array(0.75 + 0.25 * i + 0.5 * j) for j, k in enumerate(ukeys)}) for i, t in enumerate(term_names)}
    zt = "initial_condition" if kind != "statio" else "boundary_loss"
    wvals[zt]["prey"] = jnp.array(0.0)
    slices = {"prey": jnp.s_[0:1], "fox": jnp.s_[1:2]}
    obs = {k: {"pinn_in": jnp.arange(1, B * d_in + 1).reshape(B, d_in) * (0.125 + 0.05 * j), "val": jnp.arange(1, B + 1).reshape(B, 1) * 0.25, "eq_params": {}} for j, k in enumerate(ukeys)}
    if kind == "ode":
        ic = {"prey": (jnp.array(0.25), jnp.array([0.5, 0.75])), "fox": (jnp.array(0.25), jnp.array([1.5, 1.25]))}
        batch = ODEBatch(temporal_batch=jnp.arange(1, B + 1) * 0.2, obs_batch_dict=obs)
    elif kind == "statio":
        ic = None
        batch = PDEStatioBatch(inside_batch=jnp.arange(1, B + 1).reshape(B, 1) * 0.2, border_batch=jnp.array([[[0.0, 1.0]]]), obs_batch_dict=obs)
    else:
        ic = {"prey": (lambda x: 0.25 * x[0]), "fox": (lambda x: 0.5 * x[0])}
        batch = PDENonStatioBatch(times_x_inside_batch=jnp.arange(1, 2 * B + 1).reshape(B, 2) * 0.2, times_x_border_batch=jnp.array([[[0.3, 0.3], [0.0, 1.0]]]), obs_batch_dict=obs)
    bfun = {"prey": (lambda *a: 0.5), "fox": (lambda *a: 0.25)}; bcond = {"prey": "dirichlet", "fox": "dirichlet"}
    name = f"{kind}/constructed-in-trace/dict-weights/obs-slices" + ("/shape1-dyn-weights" if cfg.get("shape1") else "")
    key = f"{kind}:inctor"
    R.note(functions=["jinns.loss.%s.__post_init__/set_loss_weights/evaluate (object built inside the traced function)" % ("SystemLossODE" if kind == "ode" else "SystemLossPDE")])

    def f(wvals, params, batch):
        dyn = {}
        for i, ek in enumerate(ekeys): dyn[ek] = Eq(idx=i, Tmax=1)
        u_dict = {}
        for k in ukeys: u_dict[k] = nets[k]
        w = {}
        for t in term_names:
            w[t] = {}
            for k in (ekeys if t == "dyn_loss" else ukeys): w[t][k] = wvals[t][k]
        if kind == "ode":
            system = SystemLossODE(u_dict=u_dict, dynamic_loss_dict=dyn, initial_condition_dict={k: ic[k] for k in ukeys}, obs_slice_dict={k: slices[k] for k in ukeys},
                                   loss_weights=LossWeightsODEDict(**w), params_dict=params)
            singles = {k: LossODE(u=nets[k], dynamic_loss=None, initial_condition=ic[k], obs_slice=slices[k], params=params.extract_params(k)) for k in ukeys}
        else:
            kw = dict(initial_condition_fun_dict={k: ic[k] for k in ukeys}) if kind == "nonstatio" else {}
            system = SystemLossPDE(u_dict=u_dict, dynamic_loss_dict=dyn, omega_boundary_fun_dict={k: bfun[k] for k in ukeys},
                                   omega_boundary_condition_dict={k: bcond[k] for k in ukeys}, obs_slice_dict={k: slices[k] for k in ukeys},
                                   loss_weights=LossWeightsPDEDict(**w), params_dict=params, **kw)
            if kind == "statio":
                singles = {k: LossPDEStatio(u=nets[k], dynamic_loss=None, omega_boundary_fun=bfun[k], omega_boundary_condition=bcond[k], obs_slice=slices[k], params=params.extract_params(k)) for k in ukeys}
            else:
                singles = {k: LossPDENonStatio(u=nets[k], dynamic_loss=None, omega_boundary_fun=bfun[k], omega_boundary_condition=bcond[k], initial_condition_fun=ic[k],
                                               obs_slice=slices[k], params=params.extract_params(k)) for k in ukeys}
        tot, res = system.evaluate(params, batch)
        sing = {}
        for k in ukeys:
            bk = eqx.tree_at(lambda b: b.obs_batch_dict, batch, batch.obs_batch_dict[k])
            sing[k] = singles[k].evaluate(params.extract_params(k), bk)[1]
        return tot, res, sing

    def goals(A, O):
        W, p, b_ = A
        tot, res, sing = O
        G = []
        rows_e = []
        for e, ek in enumerate(ekeys):
            rows = []
            for i in range(B):
                if kind == "ode": t_, x_ = b_.temporal_batch[i], None; z = [t_]
                elif kind == "statio": t_, x_ = None, list(b_.inside_batch[i]); z = x_
                else: t_, x_ = b_.times_x_inside_batch[i, 0], list(b_.times_x_inside_batch[i, 1:]); z = [t_] + x_
                s_ = add(mul(const(1 + e, "Real"), D(p.nn_params["prey"], z, None, 0)), mul(p.eq_params["kappa"][()], D(p.nn_params["fox"], z, None, 1)))
                if t_ is not None: s_ = add(s_, mul(const(2, "Real"), t_))
                if x_ is not None: s_ = add(s_, mul(const(3, "Real"), x_[0]))
                rows.append(sq(uf(f"psi{e}_0", s_)))
            rows_e.append(mul(np.asarray(W["dyn_loss"][ek], dtype=object).reshape(-1)[0], mean(rows)))
        G.append(("dyn_loss == sum_e w_e * mean_i r_e^2 with each equation's own weight (per-key dict, declaration order not alphabetical)", eq(res["dyn_loss"][()], tm.ssum(rows_e))))
        for t in term_names:
            if t == "dyn_loss": continue
            want = tm.ssum([mul(W[t][k][()], sing[k][t][()]) for k in ukeys])
            G.append((f"{t} == sum over unknowns of w_u * single-network {t} (own weight, own observation slice)", eq(res[t][()], want)))
        G.append(("total == sum of the returned terms", eq(tot[()], tm.ssum([v[()] for v in res.values()]))))
        return G

    tr = R.trace(name, f, (wvals, params, batch), key=key + ":raises", concrete_goals=goals, fallback_key=key)
    if tr is None: return

    def twins(A, O):
        W, p, b_ = A
        tot, res, sing = O
        t = "observations"
        swapped = tm.ssum([mul(W[t][k2][()], sing[k][t][()]) for k, k2 in zip(ukeys, ukeys[::-1])])
        return [(f"{t} == sum with the two unknowns' weights swapped", eq(res[t][()], swapped))]

    R.check(name, tr, goals, twin_fn=twins, key_fn=lambda p_, g: key + ":" + g.split("==")[0].strip()[:30])


def run(cfg, R):
    if cfg.get("inctor"): return run_inctor(cfg, R)
    import jinns
    from jinns.parameters import Params, ParamsDict
    from jinns.loss import (LossODE, LossPDEStatio, LossPDENonStatio, SystemLossODE, SystemLossPDE, ODE, PDEStatio, PDENonStatio,
                            LossWeightsODE, LossWeightsPDEStatio, LossWeightsPDENonStatio, LossWeightsODEDict, LossWeightsPDEDict)
    from jinns.data._Batchs import ODEBatch, PDEStatioBatch, PDENonStatioBatch
    kind, ne, nu, wspec, B, d = (cfg[k] for k in ("kind", "ne", "nu", "w", "B", "d"))
    plain = cfg.get("plain", False); seq = cfg.get("seq", False)
    wrap = (lambda v: v) if cfg.get("scalar_res") else (lambda v: jnp.array([v]))
    ukeys = ["a", "b"][:nu]; ekeys = ["e0", "e1"][:ne]
    d_in = {"ode": 1, "statio": d, "nonstatio": 1 + d}[kind]
    eq_type = {"ode": "ODE", "statio": "statio_PDE", "nonstatio": "nonstatio_PDE"}[kind]
    nets = {k: mk_pinn(d_in, 1, eq_type, deg=1, H=1) for k in ukeys}
    params = ParamsDict(nn_params={k: nets[k].init_params() for k in ukeys}, eq_params={"kappa": jnp.array(1.3)})

    def lin(e, t, x, ud, pd):
        """asymmetric linear form; e = equation index"""
        ka = pd.eq_params["kappa"]
        def ev(k):
            p = pd.extract_params(k)
            return (ud[k](t, p) if kind == "ode" else ud[k](x, p) if kind == "statio" else ud[k](t, x, p))[0]
        s = (1.0 + e) * ev(ukeys[0]) + (ka * ev(ukeys[-1]) if nu > 1 else ka)
        if t is not None: s = s + 2.0 * jnp.ravel(t)[0]
        if x is not None: s = s + 3.0 * x[0]
        return s

    if kind == "ode":
        class Eq(ODE):
            idx: int = eqx.field(static=True, default=0)
            def equation(self, t, u_dict, params_dict):
                return wrap(psi(self.idx)(lin(self.idx, t, None, u_dict, params_dict)))
    elif kind == "statio":
        class Eq(PDEStatio):
            idx: int = eqx.field(static=True, default=0)
            def equation(self, x, u_dict, params_dict):
                return wrap(psi(self.idx)(lin(self.idx, None, x, u_dict, params_dict)))
    else:
        class Eq(PDENonStatio):
            idx: int = eqx.field(static=True, default=0)
            def equation(self, t, x, u_dict, params_dict):
                return wrap(psi(self.idx)(lin(self.idx, t, x, u_dict, params_dict)))
    dyn = {ek: Eq(idx=i, Tmax=1) for i, ek in enumerate(ekeys)}

    # per-unknown specifications (the second unknown has fewer constraints)
    ic = {"a": (jnp.array(0.25), jnp.array([0.5])), "b": None} if kind == "ode" else {"a": (lambda x: 0.25 * x[0]), "b": None}
    ic = {k: ic[k] for k in ukeys}
    bfun = {"a": None, "b": (lambda *a: 0.5)}; bcond = {"a": None, "b": "dirichlet"}
    bfun = {k: bfun[k] for k in ukeys}; bcond = {k: bcond[k] for k in ukeys}
    obs = {k: ({"pinn_in": jnp.arange(1, B * d_in + 1).reshape(B, d_in) * 0.125, "val": jnp.arange(1, B + 1).reshape(B, 1) * 0.25, "eq_params": {}} if k == "a" else None) for k in ukeys}
    term_names = ("dyn_loss", "initial_condition", "observations") if kind == "ode" else ("dyn_loss", "norm_loss", "boundary_loss", "observations", "initial_condition")

    def wdict(keys, base):
        return {k: jnp.array(base + 0.25 * i) for i, k in enumerate(keys)}
    if wspec == "scalar":
        wkw = {t: jnp.array(0.5 + 0.25 * i) for i, t in enumerate(term_names)}
    elif wspec == "dict":
        wkw = {t: wdict(ekeys if t == "dyn_loss" else ukeys, 0.5 + 0.125 * i) for i, t in enumerate(term_names)}
    else:   # some weights missing (None) -> 0
        wkw = {t: (None if t in ("observations",) else jnp.array(0.5 + 0.25 * i)) for i, t in enumerate(term_names)}

    if kind == "ode":
        def mk_system(wkw=wkw):
            return SystemLossODE(u_dict=nets, dynamic_loss_dict=dyn, initial_condition_dict=ic, loss_weights=LossWeightsODEDict(**wkw), params_dict=params)
        batch = ODEBatch(temporal_batch=jnp.arange(1, B + 1) * 0.2, obs_batch_dict=obs)
        singles = {k: LossODE(u=nets[k], dynamic_loss=None, initial_condition=ic[k], params=params.extract_params(k)) for k in ukeys}
    else:
        def mk_system(wkw=wkw):
            kw = dict(initial_condition_fun_dict=ic) if kind == "nonstatio" else {}
            return SystemLossPDE(u_dict=nets, dynamic_loss_dict=dyn, omega_boundary_fun_dict=bfun, omega_boundary_condition_dict=bcond,
                                 loss_weights=LossWeightsPDEDict(**wkw), params_dict=params, **kw)
        if kind == "statio":
            bb = jnp.array([[[0.0, 1.0]]]) if d == 1 else jnp.array([[[0.0, 1.0, 0.3, 0.6], [0.4, 0.7, 0.0, 1.0]]])        # (1, d, 2d): one point per facet
            batch = PDEStatioBatch(inside_batch=jnp.arange(1, B * d + 1).reshape(B, d) * 0.2, border_batch=bb, obs_batch_dict=obs)
            singles = {k: LossPDEStatio(u=nets[k], dynamic_loss=None, omega_boundary_fun=bfun[k], omega_boundary_condition=bcond[k], params=params.extract_params(k)) for k in ukeys}
        else:
            batch = PDENonStatioBatch(times_x_inside_batch=jnp.arange(1, B * (1 + d) + 1).reshape(B, 1 + d) * 0.2,
                                      times_x_border_batch=(jnp.array([[[0.3, 0.3], [0.0, 1.0]]]) if d == 1 else
                                                            jnp.array([[[0.3, 0.3, 0.3, 0.3], [0.0, 1.0, 0.3, 0.6], [0.4, 0.7, 0.0, 1.0]]])), obs_batch_dict=obs)
            singles = {k: LossPDENonStatio(u=nets[k], dynamic_loss=None, omega_boundary_fun=bfun[k], omega_boundary_condition=bcond[k],
                                           initial_condition_fun=ic[k], params=params.extract_params(k)) for k in ukeys}
    name = f"{kind}/{ne}eq-{nu}unk/{wspec}" + (f"/d{d}" if d != 1 else "") + ("/plain" if plain else "") + ("/after-another-system" if seq else "") + ("/scalar-residual" if cfg.get("scalar_res") else "")
    key = f"{kind}:{ne}x{nu}:{wspec}" + (":after-another-system" if seq else "") + (":scalar-residual" if cfg.get("scalar_res") else "")
    R.note(functions=["jinns.loss.%s.__post_init__/set_loss_weights/evaluate" % ("SystemLossODE" if kind == "ode" else "SystemLossPDE"),
                      "jinns.loss._loss_utils.constraints_system_loss_apply", "dynamic_loss_apply"])
    # the constructor is part of the claim (weight specifications are resolved there)
    try:
        system = mk_system()
    except Exception as ex:
        msg = f"{type(ex).__name__}: {str(ex).splitlines()[0][:160]}"
        if R.replay is not None:
            if R.replay.get("prog") == name: R.replay_result = dict(reproduced=True, note=msg)
            return
        R.records.append(dict(prog=name, goal="system loss can be constructed with this weight specification", verdict="sat", phase="ctor", ms=0.0))
        R._record_violation(key + ":ctor-raises", name, "real code raises", {}, note="constructor: " + msg)
        return
    if R.replay is not None and R.replay.get("goal") == "real code raises" and R.replay.get("prog") == name and "constructor" in R.replay.get("note", ""):
        R.replay_result = dict(reproduced=False, note="constructor succeeded"); return

    if plain:
        # one-equation one-unknown system == plain loss with the same (single-network) equation
        k0 = ukeys[0]
        if kind == "ode":
            class PEq(ODE):
                def equation(self, t, u, p): return wrap(psi(0)(1.0 * u(t, p)[0] + p.eq_params["kappa"] + 2.0 * jnp.ravel(t)[0]))
            pl = LossODE(u=nets[k0], dynamic_loss=PEq(Tmax=1), initial_condition=ic[k0], loss_weights=LossWeightsODE(**wkw), params=params.extract_params(k0))
        elif kind == "statio":
            class PEq(PDEStatio):
                def equation(self, x, u, p): return wrap(psi(0)(1.0 * u(x, p)[0] + p.eq_params["kappa"] + 3.0 * x[0]))
            pl = LossPDEStatio(u=nets[k0], dynamic_loss=PEq(Tmax=1), omega_boundary_fun=bfun[k0], omega_boundary_condition=bcond[k0],
                               loss_weights=LossWeightsPDEStatio(**{t: v for t, v in wkw.items() if t != "initial_condition"}), params=params.extract_params(k0))
        else:
            class PEq(PDENonStatio):
                def equation(self, t, x, u, p): return wrap(psi(0)(1.0 * u(t, x, p)[0] + p.eq_params["kappa"] + 2.0 * t[0] + 3.0 * x[0]))
            pl = LossPDENonStatio(u=nets[k0], dynamic_loss=PEq(Tmax=1), omega_boundary_fun=bfun[k0], omega_boundary_condition=bcond[k0],
                                  initial_condition_fun=ic[k0], loss_weights=LossWeightsPDENonStatio(**wkw), params=params.extract_params(k0))
        def f(system, pl, params, batch):
            # the plain loss shares every symbolic leaf (weights, initial condition) with the system
            for t in term_names:
                if hasattr(pl.loss_weights, t):
                    pl = eqx.tree_at(lambda l, t=t: getattr(l.loss_weights, t), pl, system._loss_weights[t][ekeys[0] if t == "dyn_loss" else k0])
            if kind == "ode":
                pl = eqx.tree_at(lambda l: l.initial_condition, pl, system.u_constraints_dict[k0].initial_condition)
            b1 = eqx.tree_at(lambda b: b.obs_batch_dict, batch, batch.obs_batch_dict[k0])
            return system.evaluate(params, batch), pl.evaluate(params.extract_params(k0), b1)
        tr = R.trace(name, f, (system, pl, params, batch), key=key + ":raises")
        if tr is None: return
        def goals(A, O):
            (st, sd), (pt, pd) = O
            G = [("1x1 system total == plain loss total", eq(st[()], pt[()]))]
            for t in term_names:
                if t in pd: G.append((f"1x1 system {t} == plain loss {t}", eq(sd[t][()], pd[t][()])))
            return G
        R.check(name, tr, goals, key_fn=lambda p, g: key + ":plain")
        return

    other = mk_system(jax.tree_util.tree_map(lambda v: v * 3.0 + 0.0625, wkw)) if seq else None

    def f(system, singles, params, batch, other):
        if seq: other.evaluate(params, batch)          # the other system first
        tot, res = system.evaluate(params, batch)
        sing = {}
        for k in ukeys:
            bk = eqx.tree_at(lambda b: b.obs_batch_dict, batch, batch.obs_batch_dict[k], is_leaf=lambda x: x is None)
            sk = singles[k]
            if kind == "ode" and ic[k] is not None:     # share the (t0, u0) symbols with the system's internal copy
                sk = eqx.tree_at(lambda l: l.initial_condition, sk, system.u_constraints_dict[k].initial_condition)
            sing[k] = sk.evaluate(params.extract_params(k), bk)[1]
        return tot, res, sing
    tr = R.trace(name, f, (system, singles, params, batch, other), key=key + ":raises")
    if tr is None: return

    def weights(A):
        # the weights as the user specified them (symbolic leaves live inside the system object's resolved dict)
        sysA = A[0]
        return sysA._loss_weights

    def dyn_oracle(A, swap=False):
        sysA, _, p, b_ = A[:4]
        W = weights(A)["dyn_loss"]
        tot = const(0, "Real")
        for e, ek in enumerate(ekeys):
            rows = []
            for i in range(B):
                if kind == "ode": t_, x_ = b_.temporal_batch[i], None; z = [t_]
                elif kind == "statio": t_, x_ = None, list(b_.inside_batch[i]); z = x_
                else: t_, x_ = b_.times_x_inside_batch[i, 0], list(b_.times_x_inside_batch[i, 1:]); z = [t_] + x_
                ua = D(p.nn_params[ukeys[0]], z); ub = D(p.nn_params[ukeys[-1]], z)
                ka = p.eq_params["kappa"][()]
                s = add(mul(const(1 + e, "Real"), ua), mul(ka, ub) if nu > 1 else ka)
                tt, xx = (t_, x_[0] if x_ else None)
                if swap and kind == "nonstatio": tt, xx = xx, tt
                if tt is not None: s = add(s, mul(const(2, "Real"), tt))
                if xx is not None: s = add(s, mul(const(3, "Real"), xx))
                rows.append(sq(uf(f"psi{e}_0", s)))
            w = W[ek]
            w = w[()] if isinstance(w, np.ndarray) else const(Fraction(w), "Real")
            tot = add(tot, mul(w, mean(rows)))
        return tot

    def goals(A, O):
        tot, res, sing = O
        W = weights(A)
        G = [("dyn_loss == sum_e w_e * mean_i r_e(t_i, x_i; all nets, all params)^2 (documented argument order)", eq(res["dyn_loss"][()], dyn_oracle(A)))]
        for t in term_names:
            if t == "dyn_loss": continue
            want = const(0, "Real")
            for k in ukeys:
                w = W[t][k]
                w = w[()] if isinstance(w, np.ndarray) else const(Fraction(w), "Real")
                want = add(want, mul(w, sing[k][t][()]))
            G.append((f"{t} == sum over unknowns of w_u * single-network {t}", eq(res[t][()], want)))
        G.append(("total == sum of the returned terms", eq(tot[()], tm.ssum([v[()] for v in res.values()]))))
        return G

    def twins(A, O):
        tot, res, sing = O
        tw = []
        if kind == "nonstatio":
            tw.append(("dyn_loss == oracle with the equation called as (x, t)", eq(res["dyn_loss"][()], dyn_oracle(A, swap=True))))
        tw.append(("dyn_loss == 2 * oracle", eq(res["dyn_loss"][()], mul(const(2, "Real"), dyn_oracle(A)))))
        return tw

    R.check(name, tr, goals, twin_fn=twins, key_fn=lambda p, g: key + ":" + g.split("==")[0].strip()[:30])

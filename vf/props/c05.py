"""C05 -- initial-condition, normalisation and observation terms match their definitions."""
import numpy as np
import jax, jax.numpy as jnp, equinox as eqx
from fractions import Fraction
from .. import terms as tm
from ..terms import const, add, mul, neg, sub, eq, uf
from ..nets import mk_pinn, D, unit, sq, mean
from ..stubs import psi

INFO = dict(
    bounds=dict(quick="<=3 normalisation samples, <=3 observation rows, <=2 batch times / 3 spatial rows, d<=2, n_out<=2, output slices enumerated, scalar and per-component weights",
                thorough="same shapes with Poly(2)+Ridge(2) networks and all slice/weight combinations"),
    outside=["more samples / rows than the bound", "SPINN branches (C11)", "floating-point rounding"],
    assumptions=["floats are mathematical reals", "initial-condition function u0 = psi(linear form of x)",
                 "the network reads the equation parameter theta through its output transform (so that the row a sample is evaluated with is observable)"],
)


def configs(tier):
    out = []
    H = 1
    for n_out in (1, 2):
        out.append(dict(term="ic_ode", n_out=n_out, H=H))
        for d in (1, 2):
            for B in (1, 3):
                for w in ("scalar", "vector"):
                    if w == "vector" and n_out == 1: continue
                    out.append(dict(term="ic_pde", d=d, B=B, n_out=n_out, w=w, u0shape=("scalar" if (B + d) % 2 else "vec1"), H=H))
    for d in (1, 2):
        for ns in (1, 2, 3):
            out.append(dict(term="norm_statio", d=d, ns=ns, H=H))
            for nt in (1, 2):
                out.append(dict(term="norm_nonstatio", d=d, ns=ns, nt=nt, H=H))
    for B in (1, 2):
        out.append(dict(term="ic+obs_ode", B=B, H=H))
    for kind in ("ode", "statio", "nonstatio"):
        for B in (2,):
            out.append(dict(term="obs", kind=kind, B=B, obs_eq=False, n_out=3, sl=(-1, None), w="scalar", H=H, slice_solution=(0, 2)))
            out.append(dict(term="obs", kind=kind, B=B, obs_eq=True, n_out=3, sl=(-2, -1), w="scalar", H=H, slice_solution=(0, 2)))
    for kind in ("ode", "statio", "nonstatio"):
        for B in ((2,) if tier == "quick" else (2, 3)):
            # the batch carries BOTH a parameter batch (on kappa) and an observed equation parameter (theta): row i uses row i of each
            out.append(dict(term="obs", kind=kind, B=B, obs_eq=True, pbd=True, n_out=1, sl=None, w="scalar", H=H))
            # ... and the parameter batch ALSO carries generated rows for the observed key theta: the observation term uses the observed rows
            out.append(dict(term="obs", kind=kind, B=B, obs_eq=True, pbd="shared", n_out=1, sl=None, w="scalar", H=H))
    for kind in ("ode", "statio", "nonstatio"):
        for B in (1, 2, 3):
            for obs_eq in (False, True):
                for (n_out, sl, w) in ((1, None, "scalar"), (2, None, "vector"), (2, (0, 1), "scalar"), (2, (1, 2), "scalar")):
                    if tier == "quick" and B == 2 and n_out == 2 and sl is None: continue
                    out.append(dict(term="obs", kind=kind, B=B, obs_eq=obs_eq, n_out=n_out, sl=sl, w=w, H=H))
    return out


def run(cfg, R):
    import jinns
    from jinns.parameters import Params
    from jinns.loss import LossODE, LossPDEStatio, LossPDENonStatio, LossWeightsODE, LossWeightsPDEStatio, LossWeightsPDENonStatio
    from jinns.data._Batchs import ODEBatch, PDEStatioBatch, PDENonStatioBatch
    term = cfg["term"]; H = cfg["H"]
    half = const(Fraction(1, 2), "Real")
    ot_theta = lambda i, o, p: o * p.eq_params["theta"]          # the network output depends on theta
    ot_theta_kappa = lambda i, o, p: o * p.eq_params["theta"] + p.eq_params["kappa"]
    f = lambda loss, params, batch: loss.evaluate(params, batch)

    if term == "ic_ode":
        n_out = cfg["n_out"]
        u = mk_pinn(1, n_out, "ODE", deg=2, H=H)
        params = Params(nn_params=u.init_params(), eq_params={"theta": jnp.array(0.3)})
        t0 = jnp.array(0.25); u0 = jnp.arange(1, n_out + 1) * 0.5
        loss = LossODE(u=u, dynamic_loss=None, initial_condition=(t0, u0), loss_weights=LossWeightsODE(initial_condition=jnp.array(0.75)), params=params)
        batch = ODEBatch(temporal_batch=jnp.array([0.5, 0.7]))
        name = f"ic_ode/out{n_out}"
        R.note(functions=["jinns.loss.LossODE.evaluate (initial condition block)"])
        def oracle(A, variant=None):
            loss_, p, b_ = A
            t0_, u0_ = loss_.initial_condition
            z = [t0_[()] if variant != "batch_t" else b_.temporal_batch[0]]
            w = loss_.loss_weights.initial_condition[()]
            return mul(w, tm.ssum([sq(sub(D(p.nn_params, z, None, c), u0_[c])) for c in range(n_out)]))
        tname = "initial_condition"; variants = ["batch_t"]

    elif term == "ic+obs_ode":
        B = cfg["B"]
        u = mk_pinn(1, 1, "ODE", deg=2, H=H, ot=ot_theta)
        params = Params(nn_params=u.init_params(), eq_params={"theta": jnp.array(0.3), "kappa": jnp.array(1.1)})
        t0 = jnp.array(0.25); u0 = jnp.array([0.5])
        obs = {"pinn_in": jnp.arange(1, B + 1).reshape(B, 1) * 0.125, "val": jnp.arange(1, B + 1).reshape(B, 1) * 0.25,
               "eq_params": {"theta": jnp.arange(1, B + 1).reshape(B, 1) * 0.5}}
        loss = LossODE(u=u, dynamic_loss=None, initial_condition=(t0, u0), loss_weights=LossWeightsODE(initial_condition=jnp.array(0.75), observations=jnp.array(1.25)), params=params)
        batch = ODEBatch(temporal_batch=jnp.array([0.5, 0.7]), obs_batch_dict=obs)
        name = f"ic+obs_ode/B{B}"
        R.note(functions=["jinns.loss.LossODE.evaluate (initial condition and observation blocks together)"])
        def oracle(A, variant=None):
            loss_, p, b_ = A
            t0_, u0_ = loss_.initial_condition
            w = loss_.loss_weights.initial_condition[()]
            th = p.eq_params["theta"][()] if variant != "obs_theta" else b_.obs_batch_dict["eq_params"]["theta"][0, 0]
            # the initial condition is evaluated with the caller's theta, not with the observed rows
            return mul(w, sq(sub(mul(D(p.nn_params, [t0_[()]]), th), u0_[0])))
        tname = "initial_condition"; variants = ["obs_theta"]

    elif term == "ic_pde":
        d, B, n_out, wk, u0shape = cfg["d"], cfg["B"], cfg["n_out"], cfg["w"], cfg["u0shape"]
        u = mk_pinn(1 + d, n_out, "nonstatio_PDE", deg=2, H=H)
        params = Params(nn_params=u.init_params(), eq_params={"theta": jnp.array(0.3)})
        u0 = (lambda x: psi(4)(0.5 * x[0] + 0.25 * x[-1] * (d - 1) + 0.125)) if u0shape == "scalar" else \
             (lambda x: jnp.array([psi(4)(0.5 * x[0] + 0.25 * x[-1] * (d - 1) + 0.125)]))
        w0 = jnp.array(0.75) if wk == "scalar" else jnp.arange(1, n_out + 1) * 0.5
        loss = LossPDENonStatio(u=u, dynamic_loss=None, initial_condition_fun=u0, loss_weights=LossWeightsPDENonStatio(initial_condition=w0), params=params)
        batch = PDENonStatioBatch(times_x_inside_batch=jnp.arange(1, B * (d + 1) + 1).reshape(B, d + 1) * 0.125, times_x_border_batch=None)
        name = f"ic_pde/d{d}/B{B}/out{n_out}/{wk}/{u0shape}"
        R.note(functions=["jinns.loss.LossPDENonStatio.evaluate", "jinns.loss._loss_utils.initial_condition_apply[PINN]"])
        def oracle(A, variant=None):
            loss_, p, b_ = A
            w = loss_.loss_weights.initial_condition
            rows = []
            for i in range(B):
                x = list(b_.times_x_inside_batch[i, 1:])
                t = const(0, "Real") if variant != "batch_t" else b_.times_x_inside_batch[i, 0]
                z = [t] + x
                F = uf("psi4_0", add(add(mul(half, x[0]), mul(const(Fraction(d - 1, 4), "Real"), x[-1])), const(Fraction(1, 8), "Real")))
                rows.append(tm.ssum([mul(w[c] if w.ndim else w[()], sq(sub(F, D(p.nn_params, z, None, c)))) for c in range(n_out)]))
            return mean(rows) if variant != "sum" else tm.ssum(rows)
        tname = "initial_condition"; variants = ["batch_t"] + (["sum"] if B > 1 else [])

    elif term in ("norm_statio", "norm_nonstatio"):
        d, ns = cfg["d"], cfg["ns"]; nt = cfg.get("nt", 0)
        statio = term == "norm_statio"
        u = mk_pinn(d if statio else 1 + d, 1, "statio_PDE" if statio else "nonstatio_PDE", deg=2, H=H)
        params = Params(nn_params=u.init_params(), eq_params={"theta": jnp.array(0.3)})
        samples = jnp.arange(1, ns * d + 1).reshape(ns, d) * 0.3; L = jnp.array(1.5)
        if statio:
            loss = LossPDEStatio(u=u, dynamic_loss=None, norm_samples=samples, norm_int_length=L, loss_weights=LossWeightsPDEStatio(norm_loss=jnp.array(0.75)), params=params)
            batch = PDEStatioBatch(inside_batch=jnp.ones((2, d)) * 0.4, border_batch=None)
        else:
            loss = LossPDENonStatio(u=u, dynamic_loss=None, norm_samples=samples, norm_int_length=L, loss_weights=LossWeightsPDENonStatio(norm_loss=jnp.array(0.75)), params=params)
            batch = PDENonStatioBatch(times_x_inside_batch=jnp.arange(1, nt * (d + 1) + 1).reshape(nt, d + 1) * 0.125, times_x_border_batch=None)
        name = f"{term}/d{d}/ns{ns}" + (f"/nt{nt}" if not statio else "")
        R.note(functions=["jinns.loss._loss_utils.normalization_loss_apply[PINN]", "jinns.loss.%s.evaluate" % ("LossPDEStatio" if statio else "LossPDENonStatio")])
        def oracle(A, variant=None):
            loss_, p, b_ = A
            w = loss_.loss_weights.norm_loss[()]; L_ = loss_.norm_int_length[()]; S = loss_.norm_samples
            one = const(1, "Real")
            def dev2(tlist):
                us = [D(p.nn_params, tlist + list(S[k])) for k in range(ns)]
                if variant == "mean_of_squares":
                    return mean([sq(sub(mul(L_, u_), one)) for u_ in us])
                return sq(sub(mul(L_, mean(us)), one))
            if statio: return mul(w, dev2([]))
            return mul(w, mean([dev2([b_.times_x_inside_batch[i, 0]]) for i in range(nt)]))
        tname = "norm_loss"; variants = ["mean_of_squares"] if ns > 1 else []

    elif term == "obs":
        kind, B, obs_eq, n_out, sl, wk = cfg["kind"], cfg["B"], cfg["obs_eq"], cfg["n_out"], cfg["sl"], cfg["w"]
        d = {"ode": 0, "statio": 2, "nonstatio": 1}[kind]
        d_in = {"ode": 1, "statio": 2, "nonstatio": 2}[kind]
        eq_type = {"ode": "ODE", "statio": "statio_PDE", "nonstatio": "nonstatio_PDE"}[kind]
        ss = cfg.get("slice_solution"); pbd = cfg.get("pbd", False)
        u = mk_pinn(d_in, n_out, eq_type, deg=2, H=H, ot=(ot_theta_kappa if pbd else ot_theta), slice_solution=(jnp.s_[ss[0]:ss[1]] if ss else None))
        params = Params(nn_params=u.init_params(), eq_params={"theta": jnp.array(0.3), "kappa": jnp.array(1.1)})
        sol = list(range(n_out))[slice(*ss)] if ss else list(range(n_out))          # components that are the solution
        comps = sol if sl is None else sol[slice(sl[0], sl[1])]                        # observed ones among them
        k = len(comps)
        w0 = jnp.array(0.75) if wk == "scalar" else jnp.arange(1, k + 1) * 0.5
        obs = {"pinn_in": jnp.arange(1, B * d_in + 1).reshape(B, d_in) * 0.125, "val": jnp.arange(1, B * k + 1).reshape(B, k) * 0.25,
               "eq_params": ({"theta": jnp.arange(1, B + 1).reshape(B, 1) * 0.5} if obs_eq else {})}
        kw = dict(obs_slice=jnp.s_[sl[0]:sl[1]]) if sl is not None else {}
        pb = {"kappa": jnp.arange(1, B + 1).reshape(B, 1) * 0.7} if pbd else None
        if pbd == "shared": pb["theta"] = jnp.arange(1, B + 1).reshape(B, 1) * 0.9 + 0.05
        if kind == "ode":
            loss = LossODE(u=u, dynamic_loss=None, loss_weights=LossWeightsODE(observations=w0), params=params, **kw)
            batch = ODEBatch(temporal_batch=jnp.array([0.5] * (B if pbd else 1)), obs_batch_dict=obs, param_batch_dict=pb)
        elif kind == "statio":
            loss = LossPDEStatio(u=u, dynamic_loss=None, loss_weights=LossWeightsPDEStatio(observations=w0), params=params, **kw)
            batch = PDEStatioBatch(inside_batch=jnp.ones((B if pbd else 1, 2)) * 0.4, border_batch=None, obs_batch_dict=obs, param_batch_dict=pb)
        else:
            loss = LossPDENonStatio(u=u, dynamic_loss=None, loss_weights=LossWeightsPDENonStatio(observations=w0), params=params, **kw)
            batch = PDENonStatioBatch(times_x_inside_batch=jnp.ones((B if pbd else 1, 2)) * 0.4, times_x_border_batch=None, obs_batch_dict=obs, param_batch_dict=pb)
        name = f"obs/{kind}/B{B}/{'obs-theta' if obs_eq else 'no-obs-param'}/out{n_out}/sl{sl}/{wk}" + (f"/sol{ss}" if ss else "") + ("/with-param-batch" if pbd else "") + ("-shared-key" if pbd == "shared" else "")
        R.note(functions=["jinns.loss._loss_utils.observations_loss_apply[PINN]", "jinns.parameters._params._update_eq_params_dict", "_get_vmap_in_axes_params",
                          "jinns.loss.%s.evaluate" % {"ode": "LossODE", "statio": "LossPDEStatio", "nonstatio": "LossPDENonStatio"}[kind]])
        def oracle(A, variant=None):
            loss_, p, b_ = A
            w = loss_.loss_weights.observations
            ob = b_.obs_batch_dict
            rows = []
            for i in range(B):
                z = list(ob["pinn_in"][i])
                if obs_eq and variant == "generated_theta":
                    th = b_.param_batch_dict["theta"][i, 0]
                elif obs_eq:
                    th = ob["eq_params"]["theta"][i if variant != "row0" else 0, 0]
                else:
                    th = p.eq_params["theta"][()]
                kap = b_.param_batch_dict["kappa"][i if variant != "kappa_row0" else 0, 0] if pbd else const(0, "Real")
                rows.append(tm.ssum([mul(w[j] if w.ndim else w[()], sq(sub(add(mul(D(p.nn_params, z, None, c), th), kap), ob["val"][i, j if variant != "valrev" else k - 1 - j])))
                                     for j, c in enumerate(comps)]))
            return mean(rows)
        tname = "observations"; variants = (["row0"] if (obs_eq and B > 1) else []) + (["valrev"] if k > 1 else []) + (["kappa_row0"] if pbd else []) + (["generated_theta"] if pbd == "shared" else [])
    else:
        raise ValueError(term)

    key = f"{term}" + (f":{cfg['kind']}" if term == "obs" else "") + (":observed-eq-param" if cfg.get("obs_eq") else "") + (":with-param-batch" if cfg.get("pbd") else "")
    tr = R.trace(name, f, (loss, params, batch), key=key + ":raises")
    if tr is None: return

    def goals(A, O):
        total, terms = O
        return [(f"{tname} term == its definition", eq(terms[tname][()], oracle(A))),
                ("total == sum of terms", eq(total[()], tm.ssum([v[()] for v in terms.values()])))]

    def twins(A, O):
        total, terms = O
        tw = [(f"{tname} == definition with slip '{v}'", eq(terms[tname][()], oracle(A, variant=v))) for v in variants]
        tw.append((f"{tname} == 2 * definition", eq(terms[tname][()], mul(const(2, "Real"), oracle(A)))))
        return tw

    R.check(name, tr, goals, twin_fn=twins, key_fn=lambda prog, g: key)

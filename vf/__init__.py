"""Solver-based checking of jinns: symbolic execution of jaxprs + z3 (see /verif/DESIGN.md)."""

#!/bin/sh
# tools/try_mutant.sh <patch.diff> <Cxx> [tier]  -- apply a seeded change to /repo, run the check, undo it.
P="$1"; ID="$2"; TIER="${3:-quick}"
cd /repo || exit 9
git diff --quiet || { echo "/repo has uncommitted changes"; exit 9; }
git apply "$P" || { echo "patch does not apply"; exit 9; }
cd /verif && ./check "$ID" "$TIER"; RC=$?
git -C /repo checkout -- . 
echo "check exit=$RC"
exit $RC

#!/bin/sh
# tools/validate_mutant.sh <mutation dir containing patch.diff, demo.py> <name>
# Confirms in a scratch worktree (outside /repo and /verif): patch applies, demo PASSes without / FAILs with the change,
# the 51 baseline tests still pass with the change.  Writes <dir>/validation.txt.  Removes the worktree.
M="$1"; N="$2"; W=/tmp/wtv/$N
mkdir -p /tmp/wtv; rm -rf "$W"; git -C /repo worktree prune
git -C /repo worktree add --detach "$W" HEAD >/dev/null 2>&1 || { echo "worktree failed"; exit 9; }
OUT="$M/validation.txt"; : > "$OUT"
cd "$W"
PYTHONPATH="$W" /venv/bin/python "$M/demo.py" >/tmp/wtv/$N.demo0.log 2>&1; echo "demo_unchanged_exit=$?" >> "$OUT"
if git apply "$M/patch.diff"; then echo "applies=yes" >> "$OUT"; else echo "applies=no" >> "$OUT"; fi
PYTHONPATH="$W" /venv/bin/python "$M/demo.py" >/tmp/wtv/$N.demo1.log 2>&1; echo "demo_changed_exit=$?" >> "$OUT"
PYTHONPATH="$W" /venv/bin/python -m pytest -q -p no:cacheprovider --timeout=900 --continue-on-collection-errors -q tests/dataGenerator_tests tests/parameters_tests tests/utils_tests tests/solver_tests/test_NSPipeFlow_x32_eqx.py tests/solver_tests/test_nan_params_catch.py tests/solver_tests/test_parameter_tracker.py tests/solver_tests/test_rar_algorithm.py tests/solver_tests_spinn/test_NSPipeFlow_x32_spinn_eqx.py >/tmp/wtv/$N.tests.log 2>&1
echo "tests_exit=$?" >> "$OUT"; tail -1 /tmp/wtv/$N.tests.log >> "$OUT"
cd /; git -C /repo worktree remove --force "$W"; rm -rf "$W"
cat "$OUT"

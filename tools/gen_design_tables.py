#!/usr/bin/env python3
"""fill the generated tables of DESIGN.md (between BEGIN/END markers) from known_findings.json, /repo's fix: commits and seeded/*/meta.json"""
import json, glob, os, subprocess, re
p = '/verif/DESIGN.md'; s = open(p).read()
def fill(tag, body):
    global s
    s = re.sub(rf"<!-- BEGIN:{tag} -->.*?<!-- END:{tag} -->", lambda m: f"<!-- BEGIN:{tag} -->\n{body}<!-- END:{tag} -->", s, flags=re.S)
kf = json.load(open('/verif/known_findings.json'))["findings"]
t = "| property | commit | what failed |\n|---|---|---|\n"
for f in kf: t += f"| {f['property']} | `{f['commit']}` | {f['what'].split(' ', 3)[-1]} |\n"
fill("findings-table", t)
log = subprocess.run("git -C /repo log --oneline 4441534..HEAD", shell=True, capture_output=True, text=True).stdout.strip().splitlines()[::-1]
fill("fix-commits", "".join(f"* `{l}`\n" for l in log))
t = "| seeded change | what was changed | needs, to manifest | caught by |\n|---|---|---|---|\n"
for d in sorted(glob.glob('/verif/seeded/*')):
    m = json.load(open(d + '/meta.json'))
    cb = ", ".join(m.get("caught_by", [])) or "— (see text)"
    t += f"| {os.path.basename(d)} | {m.get('summary','').replace(chr(10),' ').replace('|','/')[:230]} | {m.get('needs','').replace(chr(10),' ').replace('|','/')[:200]} | {cb} |\n"
fill("seeded-table", t)
open(p, 'w').write(s)
print("tables regenerated")

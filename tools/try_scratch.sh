#!/bin/sh
# tools/try_scratch.sh <patch.diff> <Cxx> [tier]: development helper -- runs a check against a scratch worktree of /repo HEAD with the
# patch applied (outside /repo and /verif; removed afterwards); evidence goes to the scratch dir.  The recorded detection results in
# seeded/*/meta.json come from tools/keep_seeded.py / retest_seeded.py, which apply the patch to /repo itself.
P="$1"; C="$2"; T="${3:-quick}"; W=/tmp/wts/$$
mkdir -p /tmp/wts; git -C /repo worktree prune
git -C /repo worktree add --detach "$W" HEAD >/dev/null 2>&1 || { echo "worktree failed"; exit 9; }
( cd "$W" && git apply "$P" ) || { echo "patch does not apply"; git -C /repo worktree remove --force "$W"; exit 8; }
VF_REPO="$W" VF_EVIDENCE_DIR="$W/.evidence" "$(dirname "$0")/../check" "$C" "$T" 2>&1 | grep -v "^WARNING" | cut -c1-400 | head -${LINES_MAX:-12}
git -C /repo worktree remove --force "$W"; rm -rf "$W"

#!/usr/bin/env python3
"""Regenerate MANIFEST.json from the property modules present in vf/props (claimed) -- every other
property of properties.jsonl is listed under not_applicable with its reason from tools/na_reasons.json."""
import json, os, sys, importlib.util
ROOT = os.path.dirname(os.path.dirname(os.path.abspath(__file__)))
props = [json.loads(l) for l in open(os.path.join(ROOT, "properties.jsonl"))]
na = json.load(open(os.path.join(ROOT, "tools", "na_reasons.json")))
claims = json.load(open(os.path.join(ROOT, "tools", "claims.json")))
checks = []; notapp = []
for p in props:
    pid = p["id"]
    if pid in claims and os.path.exists(os.path.join(ROOT, "vf", "props", pid.lower() + ".py")):
        c = claims[pid]
        checks.append(dict(
            property_id=pid, quick_cmd=f"./check {pid} quick", thorough_cmd=f"./check {pid} thorough",
            evidence_file=f"/verif/evidence/{pid}.json", replay_cmd_template=f"./check {pid} --replay {{path}}",
            engine="vf",
            level_claimed=dict(category="model_checking", text=c["text"], design_ref=c.get("design_ref", "DESIGN.md section 4")),
            level_note=c["note"], technique=c.get("technique", "bounded symbolic execution of the jaxpr traced from the real source + SMT (z3): unsat = holds for all values within the shape bounds; sat = counterexample replayed on the real code")))
    else:
        notapp.append(dict(property_id=pid, reason=na.get(pid, "check not built yet in this session (planned, see DESIGN.md section 4)")))
man = dict(
    version=1, setup_cmd="./bootstrap.sh",
    hooks=dict(guard="JINNS_VERIF", enable="checks export JINNS_VERIF=1; no source hook is needed (candidates/indices are read from the symbolic run)",
               baseline_off_cmd="cd /repo && /venv/bin/python -m pytest -ra -q -p no:cacheprovider --timeout=900 --continue-on-collection-errors",
               source_commits=[], add_only=True),
    engines=[dict(name="vf", path="/verif/vf", serves_properties=[c["property_id"] for c in checks],
                  kind_free_text="symbolic execution of jaxprs (traced from /repo's working tree on every run) over a hash-consed term DAG; z3 decides each goal (EUF abstraction, precise NRA, hinted refutation); counterexamples replayed on the real code")],
    checks=checks, not_applicable=notapp,
    notes="exit codes: 0 held (possibly KNOWN-FINDING lines), 1 VIOLATION, 2 inconclusive (solver unknown / not encodable), 3 harness error. See DESIGN.md.")
json.dump(man, open(os.path.join(ROOT, "MANIFEST.json"), "w"), indent=1)
print("claimed:", [c["property_id"] for c in checks], "not_applicable:", len(notapp))

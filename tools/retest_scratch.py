#!/usr/bin/env python3
"""tools/retest_scratch.py [-j N] [name-prefix ...]: re-run, for every kept seeded change (or those whose directory name starts with a
given prefix), the checks recorded in its meta.json -- each in its OWN scratch worktree of /repo HEAD with the patch applied (outside
/repo and /verif, removed afterwards), N at a time.  Same commands as tools/retest_seeded.py (which applies the patch to /repo itself,
one at a time); used to re-measure all changes after engine-level modifications.  Updates checks_run / caught_by / measured."""
import json, os, subprocess, sys, glob, shutil
from concurrent.futures import ThreadPoolExecutor
args = sys.argv[1:]; J = 3
if args[:1] == ["-j"]: J = int(args[1]); args = args[2:]
head = subprocess.run(["git", "-C", "/repo", "rev-parse", "--short", "HEAD"], capture_output=True, text=True).stdout.strip()
os.makedirs("/tmp/wts", exist_ok=True)
import threading
lock = threading.Lock()

def one(d):
    name = os.path.basename(d)
    meta = json.load(open(d + "/meta.json"))
    checks = list(meta.get("checks_run", {}).keys()) or [meta["property"]]
    w = f"/tmp/wts/r_{name}"
    with lock:
        subprocess.run(["git", "-C", "/repo", "worktree", "prune"]); shutil.rmtree(w, ignore_errors=True)
        ok = subprocess.run(["git", "-C", "/repo", "worktree", "add", "--detach", w, "HEAD"], capture_output=True).returncode == 0
    if not ok: return name, None
    res = {}
    try:
        if subprocess.run(["git", "apply", d + "/patch.diff"], cwd=w).returncode != 0:
            res = {c: dict(applies=False) for c in checks}
        else:
            for c in checks:
                p = subprocess.run(["./check", c, "quick"], cwd="/verif", capture_output=True, text=True,
                                   env=dict(os.environ, VF_REPO=w, VF_EVIDENCE_DIR=w + "/.evidence"))
                v = [l for l in p.stdout.splitlines() if l.startswith("VIOLATION")]
                res[c] = dict(exit=p.returncode, violations=len(v), first=(v[0][:300] if v else ""))
    finally:
        with lock:
            subprocess.run(["git", "-C", "/repo", "worktree", "remove", "--force", w], capture_output=True); shutil.rmtree(w, ignore_errors=True)
    meta["checks_run"] = res
    meta["caught_by"] = [c for c, r in res.items() if r.get("exit") == 1 and r.get("violations", 0) > 0]
    meta["measured"] = f"scratch worktree of /repo at {head} with the patch applied, quick tier (tools/retest_scratch.py)"
    json.dump(meta, open(d + "/meta.json", "w"), indent=1)
    return name, (meta["caught_by"], [(c, r.get("exit", "noapply")) for c, r in res.items()])

dirs = [d for d in sorted(glob.glob("/verif/seeded/*")) if not args or any(os.path.basename(d).startswith(p) for p in args)]
with ThreadPoolExecutor(max_workers=J) as ex:
    for name, r in ex.map(one, dirs):
        print(f"{name}: {r}", flush=True)

#!/usr/bin/env python3
"""tools/keep_seeded.py <ID> <X> [check-id ...]: copy a validated seeded change from /tmp/wt/<ID>/mutation/<X> to
/verif/seeded/<ID>-<X>/ (patch.diff, demo.py, meta.json), run the named checks (default: <ID>) against it
(git apply in /repo, run, git checkout) and record which checks catch it."""
import json, os, shutil, subprocess, sys
ID, X = sys.argv[1], sys.argv[2]
checks = sys.argv[3:] or [ID]
suffix = os.environ.get("SEED_ROUND", "")            # e.g. "r2": source /tmp/wt/<ID>r2, kept as <ID>-C / <ID>-D
src = f"/tmp/wt/{ID}{suffix}/mutation/{X}"
Xd = X if not suffix else {"r2": {"A": "C", "B": "D"}, "r3": {"A": "E", "B": "F"}, "r4": {"A": "G", "B": "H"}, "r5": {"A": "I", "B": "J"}}[suffix][X]
dst = f"/verif/seeded/{ID}-{Xd}"
val = {}
if os.path.exists(f"{src}/validation.txt"):
    for l in open(f"{src}/validation.txt"):
        if "=" in l: k, v = l.strip().split("=", 1); val[k] = v
ok = val.get("demo_unchanged_exit") == "0" and val.get("applies") == "yes" and val.get("demo_changed_exit") not in (None, "0") and val.get("tests_exit") == "0"
if not ok:
    print(f"{ID}-{X}: NOT validated {val}"); sys.exit(1)
os.makedirs(dst, exist_ok=True)
shutil.copy(f"{src}/patch.diff", dst); shutil.copy(f"{src}/demo.py", dst)
meta = json.load(open(f"{src}/meta.json")) if os.path.exists(f"{src}/meta.json") else {}
res = {}
for c in checks:
    if subprocess.run("git diff --quiet", shell=True, cwd="/repo").returncode != 0:
        print("repo dirty"); sys.exit(2)
    if subprocess.run(["git", "apply", f"{dst}/patch.diff"], cwd="/repo").returncode != 0:
        res[c] = dict(applies=False); continue
    try:
        p = subprocess.run(["./check", c, "quick"], cwd="/verif", capture_output=True, text=True,
                               env=dict(os.environ, VF_EVIDENCE_DIR="/tmp/vf_evidence_seeded"))       # evidence/ is only written by runs on the unchanged tree
    finally:
        subprocess.run("git checkout -- .", shell=True, cwd="/repo")
    v = [l for l in p.stdout.splitlines() if l.startswith("VIOLATION")]
    res[c] = dict(exit=p.returncode, violations=len(v), first=(v[0][:300] if v else ""))
out = dict(property=ID, variant=Xd, summary=meta.get("summary", ""), needs=meta.get("needs", ""), files=meta.get("files", []),
           confirmed=dict(how="tools/validate_mutant.sh in a scratch worktree of /repo HEAD (outside /repo and /verif, removed afterwards)",
                          patch_applies=True, demo_on_unchanged_tree="PASS (exit 0)", demo_with_change=f"FAIL (exit {val.get('demo_changed_exit')})",
                          baseline_tests_with_change="51 passed (exit 0)"),
           checks_run={c: r for c, r in res.items()}, caught_by=[c for c, r in res.items() if r.get("exit") == 1 and r.get("violations", 0) > 0])
json.dump(out, open(f"{dst}/meta.json", "w"), indent=1)
print(f"{ID}-{Xd}: caught_by={out['caught_by']} {[(c, r.get('exit')) for c, r in res.items()]}")

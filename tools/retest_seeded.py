#!/usr/bin/env python3
"""tools/retest_seeded.py [name-prefix ...]: re-run, for every kept seeded change (or those whose directory name starts with a
given prefix), the checks recorded in its meta.json against it (git apply in /repo, quick tier, git checkout) and update
checks_run / caught_by."""
import json, os, subprocess, sys, glob
pref = sys.argv[1:]
for d in sorted(glob.glob("/verif/seeded/*")):
    name = os.path.basename(d)
    if pref and not any(name.startswith(p) for p in pref): continue
    meta = json.load(open(d + "/meta.json"))
    checks = list(meta.get("checks_run", {}).keys()) or [meta["property"]]
    res = {}
    for c in checks:
        if subprocess.run("git diff --quiet", shell=True, cwd="/repo").returncode != 0:
            print("repo dirty"); sys.exit(2)
        if subprocess.run(["git", "apply", d + "/patch.diff"], cwd="/repo").returncode != 0:
            res[c] = dict(applies=False); continue
        try:
            p = subprocess.run(["./check", c, "quick"], cwd="/verif", capture_output=True, text=True,
                               env=dict(os.environ, VF_EVIDENCE_DIR="/tmp/vf_evidence_seeded"))       # evidence/ is only written by runs on the unchanged tree
        finally:
            subprocess.run("git checkout -- .", shell=True, cwd="/repo")
        v = [l for l in p.stdout.splitlines() if l.startswith("VIOLATION")]
        res[c] = dict(exit=p.returncode, violations=len(v), first=(v[0][:300] if v else ""))
    meta["checks_run"] = res
    meta["caught_by"] = [c for c, r in res.items() if r.get("exit") == 1 and r.get("violations", 0) > 0]
    json.dump(meta, open(d + "/meta.json", "w"), indent=1)
    print(f"{name}: caught_by={meta['caught_by']} {[(c, r.get('exit', 'noapply')) for c, r in res.items()]}")

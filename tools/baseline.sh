#!/bin/sh
# runs the 51 pinned baseline tests on /repo's working tree (guard off); prints the summary line
cd /repo && env -u JINNS_VERIF /venv/bin/python -m pytest -q -p no:cacheprovider --timeout=900 --continue-on-collection-errors tests/dataGenerator_tests tests/parameters_tests tests/utils_tests tests/solver_tests/test_NSPipeFlow_x32_eqx.py tests/solver_tests/test_nan_params_catch.py tests/solver_tests/test_parameter_tracker.py tests/solver_tests/test_rar_algorithm.py tests/solver_tests_spinn/test_NSPipeFlow_x32_spinn_eqx.py 2>&1 | grep -aE "passed|failed|error" | tail -3

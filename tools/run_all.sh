#!/bin/sh
# tools/run_all.sh [tier]  -- runs every claimed check sequentially and prints one summary line each
TIER="${1:-quick}"
cd /verif
for id in $(python3 -c "import json; print(' '.join(c['property_id'] for c in json.load(open('MANIFEST.json'))['checks']))"); do
  S=$(date +%s); ./check $id $TIER > /tmp/runall_$id.log 2>&1; RC=$?; E=$(date +%s)
  echo "$id exit=$RC $((E-S))s $(grep -a "^\[$id" /tmp/runall_$id.log | cut -c1-160)"
  [ $RC -ne 0 ] && grep -a -E "VIOLATION|HARNESS|INCONCL" /tmp/runall_$id.log | cut -c1-220 | head -5
done
